package main

import (
	"fmt"
	"go/token"
	"go/types"
	"reflect"
	"sort"

	"golang.org/x/tools/go/ssa"
)

func init() {
	register("C02", checkC02,
		"The precedence clause of the statement, and sibling agreement of the three invocation arms: (PREC) in the field resolver the Resolver arm requires the object to implement Resolver, the root-resolver arm requires that it does not and that a root resolver is installed, the reflection arm requires neither; in the list resolver the root-resolver arm requires the ListResolver and []interface{} tests to have failed and a root resolver to be installed, raw reflection requires no root resolver; (PIPE) each arm obtains its arguments from the same argument builder applied to its own (vars, field), is skipped when that builder reports errors, and routes a returned error through the error adder (flattening of groups, Extensions).",
		"Equality of responses across strategies is a relation over all requests and data graphs (runtime values): not decided. Case-insensitive Go field/method lookup of the reflection strategy is not modelled.")
}

func checkC02(c *Ctx, r *Report) {
	r.rule("C02.PREC", "strategy dispatch is an ordered chain: Resolver, then AnyResolver, then reflection (field resolver); ListResolver / native slices, then AnyResolver, then reflection (list resolver)")
	r.rule("C02.PIPE", "each invocation arm: arguments = argument builder(vars, field, fd) of its own parameters; gated by no errors; returned error goes through the error adder")
	a := c.anchors()
	if !requireAnchors(r, "C02.PREC", a) {
		return
	}
	c02PrecField(c, r, a)
	c02PrecList(c, r, a)
	r.rule("C02.NATIVE", "the Go list carriers the library walks itself (frozen table: []interface{} and slices of string, int, int64, bool, float32, float64, time.Time) are excluded by a failed type test (or a failed reflect Kind()==Slice test) on every path to AnyResolver.Len/Nth, so the same data gives the same list whichever strategy backs the graph")
	nativeListRule(c, r, a, "C02.NATIVE", "a root resolver that understands only its own containers reports length 0, so the root-resolver strategy returns an empty list where the interface and reflection strategies return the elements")
	c02Pipe(c, r, a)
	c02Promoted(c, r)
	c02Layout(c, r, a)
	c02SharedDefaults(c, r, a)
	c02BindArm(c, r, a)
	importRulesFrom(c, r, "C04", func(c *Ctx, sub *Report) { c04Gate(c, sub, a) }, "C02.REFLARGS", "the reflected argument vector is built from the shared argument builder's map of this evaluation and only when it reported no error (C04.GATE): a vector remembered from an earlier evaluation gives reflection other arguments than the interface and root resolvers get", "C04.GATE~formReflectArgs")
	c02ValErr(c, r, a)
	cacheVerdictRule(c, r, a, "C02.CACHE", "the reflection strategy then answers with an error (and null) for a node whose GraphQL type was first seen with another Go type, where the interface and root-resolver strategies answer with the data")
}

// cacheVerdictRule: the lazily discovered reflection binding of an object type (Object.meta) is a
// cache. A request-time caller of a function that writes it must not let that function's error
// decide the response: the error says "this type was first seen with another Go type", which depends
// on the history of earlier requests, not on the request.
func cacheVerdictRule(c *Ctx, r *Report, a *Anchors, rule, consequence string) {
	r.rule(rule, "request-time callers of the functions that write the lazily cached Go-type binding (Object.meta) discard their error result: the cache's verdict about earlier requests never reaches the response")
	writers := map[*ssa.Function]bool{}
	for _, fn := range c.allFns {
		if res := fn.Signature.Results(); res.Len() != 1 || !isErrorType(res.At(0).Type()) {
			continue
		}
		for _, b := range fn.Blocks {
			for _, in := range b.Instrs {
				if st, ok := in.(*ssa.Store); ok {
					if fa, ok := st.Addr.(*ssa.FieldAddr); ok {
						if o, f := fieldOwner(fa.X.Type(), fa.Field); o == "Object" && f == "meta" {
							writers[fn] = true
						}
					}
				}
			}
		}
	}
	n := 0
	var fns []*ssa.Function
	for f := range a.reach {
		if c.inPkg(f) {
			fns = append(fns, f)
		}
	}
	sort.Slice(fns, func(i, j int) bool { return fnName(fns[i]) < fnName(fns[j]) })
	for _, fn := range fns {
		k := 0
		for _, ci := range callsIn(fn) {
			cal := ci.Common().StaticCallee()
			if cal == nil || !writers[cal] {
				continue
			}
			n++
			k++
			used := false
			if v, ok := ci.(ssa.Value); ok && v.Referrers() != nil {
				for _, ref := range *v.Referrers() {
					if _, isDbg := ref.(*ssa.DebugRef); !isDbg {
						used = true
					}
				}
			}
			r.check(rule, fmt.Sprintf("%s: call #%d of %s ignores the cache's error", fnName(fn), k, fnName(cal)), ci.Pos(), !used,
				"the error of the lazy binding (the type is already bound to a different Go type) is used at request time: "+consequence)
		}
	}
	r.floor(rule, "request-time calls of the lazy binding writers", n, 1)
}

// anyResolverField: v is a load of Root.AnyResolver
func isAnyResolverLoad(v ssa.Value) bool {
	_, o, f, ok := loadOfField(v)
	return ok && o == "Root" && f == "AnyResolver"
}

func c02PrecField(c *Ctx, r *Report, a *Anchors) {
	fn := a.field
	var objP *ssa.Parameter
	for _, p := range fn.Params {
		if it, ok := p.Type().Underlying().(*types.Interface); ok && it.NumMethods() == 0 {
			objP = p
			break
		}
	}
	facts := func(b *ssa.BasicBlock) (isRes, notRes, anySet, anyNil bool) {
		for _, g := range pathGuards(b) {
			if f, ok := assertFactOf(g); ok && derefNamed(f.t) == "Resolver" && stripIface(f.x) == ssa.Value(objP) {
				if f.holds {
					isRes = true
				} else {
					notRes = true
				}
			}
			ng := normGuard(g)
			if v, eq, ok := nilCmp(ng.cond); ok && isAnyResolverLoad(v) {
				if eq == ng.val {
					anyNil = true
				} else {
					anySet = true
				}
			}
		}
		return
	}
	n := 0
	for _, ci := range callsIn(fn) {
		cc := ci.Common()
		isRes, notRes, anySet, anyNil := facts(ci.Block())
		switch {
		case cc.IsInvoke() && cc.Method.Name() == "Resolve" && c.isNamed(cc.Value.Type(), "Resolver"):
			n++
			r.check("C02.PREC", fnName(fn)+": Resolver arm taken exactly when the object implements Resolver", ci.Pos(), isRes && !anySet && !anyNil, "the interface-resolver arm must be the first test of the dispatch")
		case cc.IsInvoke() && cc.Method.Name() == "Resolve" && c.isNamed(cc.Value.Type(), "AnyResolver"):
			n++
			r.check("C02.PREC", fnName(fn)+": root-resolver arm taken only when the object is no Resolver and a root resolver is installed", ci.Pos(), notRes && anySet, "an object implementing Resolver must not be handed to the root resolver; interface resolver > root resolver")
		case cc.StaticCallee() == a.reflectRes:
			n++
			r.check("C02.PREC", fnName(fn)+": reflection arm taken only when the object is no Resolver and no root resolver is installed", ci.Pos(), notRes && anyNil, "root resolver > reflection")
		}
	}
	r.floor("C02.PREC", "strategy arms in the field resolver", n, 3)
}

func c02PrecList(c *Ctx, r *Report, a *Anchors) {
	fn := a.list
	var objP *ssa.Parameter
	for _, p := range fn.Params {
		if it, ok := p.Type().Underlying().(*types.Interface); ok && it.NumMethods() == 0 {
			objP = p
			break
		}
	}
	type st struct{ isLR, notLR, notSlice, anySet, anyNil bool }
	facts := func(b *ssa.BasicBlock) st {
		var s st
		for _, g := range blockGuards(b) {
			if f, ok := assertFactOf(g); ok && stripIface(f.x) == ssa.Value(objP) {
				if derefNamed(f.t) == "ListResolver" {
					if f.holds {
						s.isLR = true
					} else {
						s.notLR = true
					}
				}
				if sl, ok := f.t.(*types.Slice); ok && !f.holds {
					if it, ok := sl.Elem().Underlying().(*types.Interface); ok && it.NumMethods() == 0 {
						s.notSlice = true
					}
				}
			}
			ng := normGuard(g)
			if v, eq, ok := nilCmp(ng.cond); ok && isAnyResolverLoad(v) {
				if eq == ng.val {
					s.anyNil = true
				} else {
					s.anySet = true
				}
			}
		}
		return s
	}
	n := 0
	seen := map[string]bool{}
	for _, ci := range callsIn(fn) {
		cc := ci.Common()
		f := calleeObj(ci)
		if f == nil {
			continue
		}
		s := facts(ci.Block())
		switch {
		case cc.IsInvoke() && c.isNamed(cc.Value.Type(), "ListResolver") && (f.Name() == "Len" || f.Name() == "Nth"):
			n++
			r.check("C02.PREC", fmt.Sprintf("%s: ListResolver.%s used exactly when the object implements ListResolver", fnName(fn), f.Name()), ci.Pos(), s.isLR && !s.anySet && !s.anyNil, "the ListResolver arm must not depend on the root resolver")
		case cc.IsInvoke() && c.isNamed(cc.Value.Type(), "AnyResolver") && (f.Name() == "Len" || f.Name() == "Nth"):
			n++
			r.check("C02.PREC", fmt.Sprintf("%s: AnyResolver.%s used only after the ListResolver and []interface{} tests failed and with a root resolver installed", fnName(fn), f.Name()), ci.Pos(), s.notLR && s.notSlice && s.anySet, "ListResolver and native slices take precedence over the root resolver")
		case f.Pkg() != nil && f.Pkg().Path() == "reflect" && recvTypeName(f) == "Value" && (f.Name() == "Len" || f.Name() == "Index"):
			if seen[f.Name()] {
				continue
			}
			seen[f.Name()] = true
			n++
			r.check("C02.PREC", fmt.Sprintf("%s: reflect Value.%s used only when no root resolver is installed and the object is no ListResolver", fnName(fn), f.Name()), ci.Pos(), s.notLR && s.anyNil, "root resolver > reflection for lists")
		}
	}
	r.floor("C02.PREC", "strategy-specific list accessors", n, 6)
}

func c02Pipe(c *Ctx, r *Report, a *Anchors) {
	type arm struct {
		name   string
		fn     *ssa.Function
		invoke *ssa.Call
	}
	var arms []arm
	for _, ci := range callsIn(a.field) {
		if call, ok := ci.(*ssa.Call); ok && c.isResolverInvoke(call) {
			arms = append(arms, arm{calleeDesc(call), a.field, call})
		}
	}
	for _, ci := range callsIn(a.reflectRes) {
		if call, ok := ci.(*ssa.Call); ok && c.isResolverInvoke(call) {
			arms = append(arms, arm{"reflection", a.reflectRes, call})
		}
	}
	for _, am := range arms {
		// (i) argument builder call feeding the arm
		var fa *ssa.Call
		var host *ssa.Function
		if am.fn == a.field {
			for _, arg := range am.invoke.Call.Args {
				if ex, ok := arg.(*ssa.Extract); ok && ex.Index == 0 {
					if call, ok := ex.Tuple.(*ssa.Call); ok && call.Call.StaticCallee() == a.formArgs {
						fa = call
						host = a.field
					}
				}
			}
		} else if a.reflArgs != nil {
			for _, ci := range callsIn(a.reflArgs) {
				if ci.Common().StaticCallee() == a.formArgs {
					fa, _ = ci.(*ssa.Call)
					host = a.reflArgs
				}
			}
		}
		key := fmt.Sprintf("arm %s", am.name)
		if fa == nil {
			r.check("C02.PIPE", key+": arguments come from the argument builder", am.invoke.Pos(), false, "this arm does not obtain its arguments from the argument builder used by the other arms")
			continue
		}
		ex := explicitArgs(fa)
		ownParams := len(ex) == 3
		if ownParams {
			for i, want := range []string{"", "Field", "FieldDef"} {
				if i == 0 {
					p, ok := ex[0].(*ssa.Parameter)
					if !ok || !isStrIfaceMap(p.Type()) || p.Parent() != host {
						ownParams = false
					}
					continue
				}
				if !c.isNamed(ex[i].Type(), want) {
					ownParams = false
				}
			}
			if p, ok := ex[1].(*ssa.Parameter); !ok || p.Parent() != host {
				ownParams = false
			}
		}
		r.check("C02.PIPE", key+": arguments = argument builder(vars, field, fd) of the arm's own request", fa.Pos(), ownParams, "the argument builder must be applied to the arm's own vars and field parameters and a field definition")
		// (ii) gating is C04.GATE's; here: the invocation is dominated by a len(errors)==0 test at all
		gated := hasGuard(am.invoke.Block(), func(g guard) bool {
			v, _, _, ok := intCmp(g.cond)
			if !ok {
				return false
			}
			x, isLen := isLenOf(v)
			return isLen && isErrSlice(x.Type())
		})
		r.check("C02.PIPE", key+": skipped when the argument builder reported errors", am.invoke.Pos(), gated, "no len(errors) test dominates the invocation")
		// (iii) returned error through the error adder
		routed := false
		var errv ssa.Value
		if am.fn == a.field {
			errv = extractOf(am.invoke, 1)
		} else {
			// err, _ = mva[1].Interface().(error)
			for _, b := range am.fn.Blocks {
				for _, in := range b.Instrs {
					if ta, ok := in.(*ssa.TypeAssert); ok && isErrorType(ta.AssertedType) {
						errv = extractOf(ta, 0)
						if errv == nil && !ta.CommaOk {
							errv = ta
						}
					}
				}
			}
		}
		if errv != nil {
			for _, ci := range callsIn(am.fn) {
				if ci.Common().StaticCallee() != a.addError {
					continue
				}
				for _, arg := range ci.Common().Args {
					ls, _ := phiLeaves(arg)
					for _, l := range ls {
						if l.val == errv {
							routed = true
						}
					}
				}
			}
		}
		r.check("C02.PIPE", key+": a returned error is routed through the error adder", am.invoke.Pos(), routed, "the error returned by this arm is not passed to the error adder: a grouped error is not flattened into one entry per member and Extensions of a structured error are lost, unlike in the sibling arms")
	}
	r.floor("C02.PIPE", "invocation arms", len(arms), 3)
}

// ---- native list carriers -----------------------------------------------------

// nativeListTable is the frozen reference set of Go list carriers that the
// library walks itself on the pinned tree, before any strategy is consulted
// (DESIGN 4/C02: "ListResolver, []interface{} and typed slices next, AnyResolver
// before raw reflection"). Each entry is a plain slice of a predeclared element
// type or of time.Time; the documented examples hold such slices in data served by
// a root resolver (examples/root: "origin": []string).
var nativeListTable = []string{"[]interface{}", "[]string", "[]int", "[]int64", "[]bool", "[]float32", "[]float64", "[]time.Time"}

// nativeListSet derives, from the list resolver itself, the dynamic types that
// are excluded (by a failed type test on the list value) on every path that
// reaches the root resolver's list accessors. anyKind is true when the
// accessors are instead reached only after a failed reflect Kind()==Slice test,
// in which case every slice is walked by the library.
func (c *Ctx) nativeListSet(a *Anchors) (set []types.Type, anyKind bool, site ssa.CallInstruction) {
	fn := a.list
	if fn == nil {
		return nil, false, nil
	}
	var objP *ssa.Parameter
	for _, p := range fn.Params {
		if it, ok := p.Type().Underlying().(*types.Interface); ok && it.NumMethods() == 0 {
			objP = p
			break
		}
	}
	first := true
	for _, ci := range callsIn(fn) {
		cc := ci.Common()
		f := calleeObj(ci)
		if f == nil || !cc.IsInvoke() || !c.isNamed(cc.Value.Type(), "AnyResolver") || (f.Name() != "Len" && f.Name() != "Nth") {
			continue
		}
		var here []types.Type
		kind := false
		for _, g := range blockGuards(ci.Block()) {
			if af, ok := assertFactOf(g); ok && !af.holds && stripIface(af.x) == ssa.Value(objP) {
				if _, isSl := af.t.(*types.Slice); isSl {
					here = append(here, af.t)
				}
			}
			ng := normGuard(g)
			if b, ok := ng.cond.(*ssa.BinOp); ok && (b.Op == token.EQL || b.Op == token.NEQ) {
				for _, side := range []ssa.Value{b.X, b.Y} {
					if call, ok := side.(*ssa.Call); ok {
						if cf := calleeObj(call); cf != nil && cf.Name() == "Kind" && cf.Pkg() != nil && cf.Pkg().Path() == "reflect" {
							other := b.Y
							if side == b.Y {
								other = b.X
							}
							if k, ok := other.(*ssa.Const); ok && k.Value != nil && k.Int64() == int64(reflect.Slice) {
								if (b.Op == token.EQL) != ng.val { // Kind()==Slice is false here
									kind = true
								}
							}
						}
					}
				}
			}
		}
		if first {
			set, anyKind, site, first = here, kind, ci, false
			continue
		}
		// every accessor call must be behind the exclusions: intersect
		var keep []types.Type
		for _, t := range set {
			for _, u := range here {
				if types.Identical(t, u) {
					keep = append(keep, t)
					break
				}
			}
		}
		set, anyKind = keep, anyKind && kind
	}
	return
}

// nativeListRule emits, for property prop, one obligation per entry of the frozen table.
func nativeListRule(c *Ctx, r *Report, a *Anchors, rule, why string) {
	set, anyKind, site := c.nativeListSet(a)
	if site == nil {
		// no root-resolver list arm at all: every list is walked by the library or by reflection
		r.Notes = append(r.Notes, rule+": the list resolver has no root-resolver accessor call; nothing to exclude")
		return
	}
	var derived []string
	for _, t := range set {
		derived = append(derived, types.TypeString(t, func(p *types.Package) string { return p.Name() }))
	}
	sort.Strings(derived)
	r.Tables[rule+" frozen native list carriers"] = nativeListTable
	r.Tables[rule+" carriers excluded before the root resolver's list accessors (derived on this run)"] = derived
	for _, want := range nativeListTable {
		ok := anyKind
		for _, d := range derived {
			if d == want {
				ok = true
			}
		}
		r.check(rule, fmt.Sprintf("%s: a %s value is walked by the library, not handed to the root resolver's Len/Nth", fnName(a.list), want), site.Pos(), ok,
			fmt.Sprintf("a Go %s reaches AnyResolver.Len/Nth when a root resolver is installed: %s", want, why))
	}
}

type natInfo struct {
	set     []types.Type
	anyKind bool
	site    ssa.CallInstruction
}

func (c *Ctx) nativeListSetMemo() ([]types.Type, bool, ssa.CallInstruction) {
	if c.natMemo == nil {
		s, k, site := c.nativeListSet(c.anchors())
		c.natMemo = &natInfo{s, k, site}
	}
	return c.natMemo.set, c.natMemo.anyKind, c.natMemo.site
}

// c02Promoted: the reflection strategy binds a GraphQL field to a Go struct field found by reflect's own
// name resolution (FieldByName / FieldByNameFunc), which sees fields promoted from embedded structs as Go
// itself does. A binding taken from an enumeration with Type.Field(i) sees only the struct's own fields
// unless it descends into anonymous members.
func c02Promoted(c *Ctx, r *Report) {
	r.rule("C02.PROMOTED", "every value stored into FieldDef.goField from a reflect.StructField comes from FieldByName/FieldByNameFunc, or from Type.Field(i) in a function that also reads StructField.Anonymous")
	n := 0
	for _, fn := range c.allFns {
		k := 0
		for _, b := range fn.Blocks {
			for _, in := range b.Instrs {
				st, ok := in.(*ssa.Store)
				if !ok {
					continue
				}
				fa, ok := st.Addr.(*ssa.FieldAddr)
				if !ok {
					continue
				}
				if o, f := fieldOwner(fa.X.Type(), fa.Field); o != "FieldDef" || f != "goField" {
					continue
				}
				// the stored value: X.Name of a reflect.StructField X
				var sf ssa.Value
				switch t := st.Val.(type) {
				case *ssa.Field:
					sf = t.X
				case *ssa.UnOp:
					if fa2, ok := t.X.(*ssa.FieldAddr); ok {
						sf = fa2.X
					}
				}
				if sf == nil {
					continue
				}
				isSF := func(t types.Type) bool {
					if p, ok := t.(*types.Pointer); ok {
						t = p.Elem()
					}
					nm, ok := t.(*types.Named)
					return ok && nm.Obj().Pkg() != nil && nm.Obj().Pkg().Path() == "reflect" && nm.Obj().Name() == "StructField"
				}
				if !isSF(sf.Type()) {
					continue
				}
				n++
				k++
				// origin of the StructField
				origin := ""
				var walk func(v ssa.Value, d int)
				walk = func(v ssa.Value, d int) {
					if d > 6 {
						return
					}
					switch t := v.(type) {
					case *ssa.Extract:
						walk(t.Tuple, d+1)
					case *ssa.Call:
						if f := calleeObj(t); f != nil {
							origin = f.Name()
						}
					case *ssa.UnOp:
						walk(t.X, d+1)
					case *ssa.Alloc:
						for _, ref := range *t.Referrers() {
							if s2, ok := ref.(*ssa.Store); ok && s2.Addr == ssa.Value(t) {
								walk(s2.Val, d+1)
							}
						}
					case *ssa.Phi:
						for _, e := range t.Edges {
							walk(e, d+1)
						}
					}
				}
				walk(sf, 0)
				ok2 := origin == "FieldByName" || origin == "FieldByNameFunc"
				if origin == "Field" {
					for _, b2 := range fn.Blocks {
						for _, in2 := range b2.Instrs {
							switch t := in2.(type) {
							case *ssa.Field:
								if isSF(t.X.Type()) && fieldName(t.X.Type(), t.Field) == "Anonymous" {
									ok2 = true
								}
							case *ssa.FieldAddr:
								if isSF(t.X.Type()) && fieldName(t.X.Type(), t.Field) == "Anonymous" {
									ok2 = true
								}
							}
						}
					}
				}
				r.check("C02.PROMOTED", fmt.Sprintf("%s: Go field binding #%d is found the way Go resolves selectors", fnName(fn), k), st.Pos(), ok2,
					fmt.Sprintf("the struct field comes from reflect %s() without descending into anonymous members: a field promoted from an embedded struct is not found, so the reflection strategy answers null plus an error where the other strategies return the value", origin))
			}
		}
	}
	r.floor("C02.PROMOTED", "Go field bindings taken from reflect.StructField", n, 1)
}

// c02Layout: a FieldDef belongs to a GraphQL field, not to one Go type. What it caches about the Go side must
// hold for every Go type that can back the object type: a name or a method. A struct field's index or offset
// is a fact about one struct layout; reading another struct through it yields another field.
func c02Layout(c *Ctx, r *Report, a *Anchors) {
	r.rule("C02.LAYOUT", "no value derived from reflect.StructField.Index / Offset is stored into a schema node, and the reflection resolver reads struct fields by name")
	isSF := func(t types.Type) bool {
		if p, ok := t.(*types.Pointer); ok {
			t = p.Elem()
		}
		nm, ok := t.(*types.Named)
		return ok && nm.Obj().Pkg() != nil && nm.Obj().Pkg().Path() == "reflect" && nm.Obj().Name() == "StructField"
	}
	n := 0
	for _, fn := range c.allFns {
		for _, b := range fn.Blocks {
			for _, in := range b.Instrs {
				st, ok := in.(*ssa.Store)
				if !ok {
					continue
				}
				fa, ok := st.Addr.(*ssa.FieldAddr)
				if !ok {
					continue
				}
				o, f := fieldOwner(fa.X.Type(), fa.Field)
				if !schemaTypes[o] {
					continue
				}
				layout := ""
				var walk func(v ssa.Value, d int)
				walk = func(v ssa.Value, d int) {
					if d > 5 || layout != "" {
						return
					}
					switch t := v.(type) {
					case *ssa.Field:
						if isSF(t.X.Type()) {
							if nm := fieldName(t.X.Type(), t.Field); nm == "Index" || nm == "Offset" {
								layout = nm
							}
						}
					case *ssa.UnOp:
						if fa2, ok := t.X.(*ssa.FieldAddr); ok && isSF(fa2.X.Type()) {
							if nm := fieldName(fa2.X.Type(), fa2.Field); nm == "Index" || nm == "Offset" {
								layout = nm
							}
						} else {
							walk(t.X, d+1)
						}
					case *ssa.Slice:
						walk(t.X, d+1)
					case *ssa.Phi:
						for _, e := range t.Edges {
							walk(e, d+1)
						}
					case *ssa.Call:
						if isBuiltinCall(t, "append") {
							for _, x := range t.Call.Args {
								walk(x, d+1)
							}
						}
					case *ssa.Convert:
						walk(t.X, d+1)
					}
				}
				walk(st.Val, 0)
				if layout == "" {
					continue
				}
				n++
				r.flag("C02.LAYOUT", fmt.Sprintf("%s: %s.%s does not hold a struct layout fact", fnName(fn), o, f), st.Pos(),
					"reflect.StructField."+layout+" of the first Go type seen is cached on the schema node: when one GraphQL type is backed by two Go structs with different layouts, the reflection strategy reads the wrong field of the second one while the other strategies answer correctly")
			}
		}
	}
	// the reader side: struct fields are read through FieldByName*
	byName := false
	if a.reflectRes != nil {
		for _, ci := range callsIn(a.reflectRes) {
			if f := calleeObj(ci); f != nil && f.Pkg() != nil && f.Pkg().Path() == "reflect" && (f.Name() == "FieldByName" || f.Name() == "FieldByNameFunc") {
				byName = true
			}
		}
		r.check("C02.LAYOUT", fnName(a.reflectRes)+": struct fields are read by name", a.reflectRes.Pos(), byName, "the reflection resolver does not read the bound Go field with FieldByName / FieldByNameFunc")
	}
	_ = n
}

// c02SharedDefaults: what a resolver receives for an omitted argument is decided by the shared argument
// builder. A strategy-specific arm that consults the schema's default values itself hands its resolver
// something the other strategies' resolvers do not get.
func c02SharedDefaults(c *Ctx, r *Report, a *Anchors) {
	r.rule("C02.DEFAULTS", "the strategy-specific code (reflection resolver, reflected-argument builder) never reads Arg.Default / InputField.Default: defaults reach resolvers through the shared argument builder or not at all")
	n := 0
	for _, fn := range []*ssa.Function{a.reflectRes, a.reflArgs} {
		if fn == nil {
			continue
		}
		n++
		bad := token.NoPos
		for _, b := range fn.Blocks {
			for _, in := range b.Instrs {
				if fa, ok := in.(*ssa.FieldAddr); ok {
					if o, f := fieldOwner(fa.X.Type(), fa.Field); (o == "Arg" || o == "InputField") && f == "Default" {
						bad = fa.Pos()
					}
				}
			}
		}
		r.check("C02.DEFAULTS", fnName(fn)+": does not apply schema defaults on its own", firstPos(bad, fn.Pos()), !bad.IsValid(),
			"this arm substitutes the declared default for an omitted argument although the shared argument builder does not: a reflected method is called with the default while the interface and root resolvers are called without the argument")
	}
	r.floor("C02.DEFAULTS", "strategy-specific argument code examined", n, 1)
}

// c02BindArm: the lazily cached Go type of an object type (Object.meta) is a fact about the reflection
// strategy: it is what reflection looks fields and methods up in. At request time it may be written only
// where reflection is the strategy in use - inside the reflection resolver, or in the type dispatcher's union
// arm (whose comparison needs it for every strategy and which binds by name, not by first sight). A write
// made for every resolved object records the Go type of whatever node is met first, a Resolver-backed
// one included, and plain structs of the same GraphQL type are then looked up in the wrong Go type.
func c02BindArm(c *Ctx, r *Report, a *Anchors) {
	r.rule("C02.BINDARM", "who-may-call: request-time callers of the functions that write Object.meta are the reflection resolver and the type dispatcher only")
	writers := map[*ssa.Function]bool{}
	for _, fn := range c.allFns {
		for _, b := range fn.Blocks {
			for _, in := range b.Instrs {
				if st, ok := in.(*ssa.Store); ok {
					if fa, ok := st.Addr.(*ssa.FieldAddr); ok {
						if o, f := fieldOwner(fa.X.Type(), fa.Field); o == "Object" && f == "meta" {
							writers[fn] = true
						}
					}
				}
			}
		}
	}
	var fns []*ssa.Function
	for f := range a.reach {
		if c.inPkg(f) {
			fns = append(fns, f)
		}
	}
	sort.Slice(fns, func(i, j int) bool { return fnName(fns[i]) < fnName(fns[j]) })
	n := 0
	for _, fn := range fns {
		if writers[fn] {
			continue
		}
		k := 0
		for _, ci := range callsIn(fn) {
			cal := ci.Common().StaticCallee()
			if cal == nil || !writers[cal] {
				continue
			}
			n++
			k++
			ok := fn == a.reflectRes || fn == a.dispatch
			r.check("C02.BINDARM", fmt.Sprintf("%s: call #%d of %s is made on the reflection strategy only", fnName(fn), k, fnName(cal)), ci.Pos(), ok,
				"the Go-type binding is written for every object this function handles, whichever strategy backs it: a node implementing Resolver that is met first binds its Go type to the GraphQL type, and plain structs of that type then resolve to nulls with 'is not a field of' errors - only in graphs that mix strategies")
		}
	}
	r.floor("C02.BINDARM", "request-time calls of the binding writers", n, 2)
}

// c02ValErr: sibling agreement of the three invocation arms on a value that comes back together with an
// error: all keep it or all drop it (C06.G4 records that today all three keep it).
func c02ValErr(c *Ctx, r *Report, a *Anchors) {
	r.rule("C02.VALERR", "the Resolver, AnyResolver and reflection invocations agree on whether a value returned together with an error flows on")
	type arm struct {
		desc    string
		pos     token.Pos
		dropped bool
	}
	var arms []arm
	for _, fn := range []*ssa.Function{a.field, a.reflectRes} {
		if fn == nil {
			continue
		}
		for _, ci := range callsIn(fn) {
			call, ok := ci.(*ssa.Call)
			if !ok || !c.isResolverInvoke(call) {
				continue
			}
			val, errv := extractOf(call, 0), extractOf(call, 1)
			if tup, ok := call.Type().(*types.Tuple); !ok || tup.Len() != 2 {
				val, errv = nil, nil
			}
			if val == nil || errv == nil {
				okp, _, _ := c06ReflectPair(call)
				arms = append(arms, arm{fnName(fn) + ": " + calleeDesc(call), call.Pos(), okp})
				continue
			}
			d, _ := valueDroppedOnError(val, errv)
			arms = append(arms, arm{fnName(fn) + ": " + calleeDesc(call), call.Pos(), d})
		}
	}
	nd := 0
	for _, x := range arms {
		if x.dropped {
			nd++
		}
	}
	for _, x := range arms {
		agree := nd == 0 || nd == len(arms)
		minority := x.dropped == (nd*2 < len(arms))
		r.check("C02.VALERR", x.desc+": treats a value returned with an error like the other strategies", x.pos, agree || !minority,
			fmt.Sprintf("this arm %s the value while the others do not (%d of %d drop it): the same data answers with the value under one strategy and with null under another", map[bool]string{true: "drops", false: "keeps"}[x.dropped], nd, len(arms)))
	}
	r.floor("C02.VALERR", "resolver invocations compared", len(arms), 3)
}
