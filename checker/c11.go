package main

import (
	"fmt"
	"go/types"
	"sort"
	"strings"

	"golang.org/x/tools/go/ssa"
)

func init() {
	register("C11", checkC11,
		"Effect (mod-set) analysis of ResolveExecutable, and of AddEvent with respect to a subscription's stored selection: every store, map update, append-in-place, copy, delete and sort executed by any function reachable from the entry point is summarised with the access path of the written location; (PURE) no written location is reachable from the parsed request (the exe parameter: Ops, Fragments, Field, ArgValue.Value incl. elements of literal maps and lists, VarDef.Default, DirectiveUse.Args). A resolve that writes nothing into the request cannot make a later resolve of the same parsed document differ from a fresh parse, nor change its printed form.",
		"Response equality across calls (values); determinism of Executable.String() itself (it ranges over the Ops map); writes into application-owned data (the caller's variable map, resolver data) are outside the claim.")
}

var writeKinds = map[string]bool{"store": true, "mapupdate": true, "append": true, "copy": true, "delete": true, "sort": true}

func checkC11(c *Ctx, r *Report) {
	r.rule("C11.PURE", "the write summary of ResolveExecutable contains no location rooted at the exe parameter, and that of AddEvent no location of a request type (Field, ArgValue, ...) reached through a subscription")
	entry := c.fn("(*Root).ResolveExecutable")
	addEvent := c.fn("(*Root).AddEvent")
	if entry == nil || addEvent == nil {
		r.undecided("C11.PURE", "anchors ResolveExecutable / AddEvent", 0, "not found")
		return
	}
	eng := newEffEngine(c)
	eng.run(entry, addEvent)
	exeIdx := -1
	for i, p := range entry.Params {
		if c.isNamed(p.Type(), "Executable") {
			exeIdx = i
		}
	}
	type agg struct {
		e     effect
		paths map[string]bool
	}
	found := map[string]*agg{}
	nWrites := 0
	collect := func(fn *ssa.Function, pred func(e effect) bool, tag string) {
		s := eng.sums[fn]
		if s == nil {
			return
		}
		for _, ef := range s.effects {
			if !writeKinds[ef.kind] {
				continue
			}
			nWrites++
			if !pred(ef) {
				continue
			}
			key := fmt.Sprintf("%s%s: %s", tag, fnName(ef.fn), ef.descr())
			a := found[key]
			if a == nil {
				a = &agg{e: ef, paths: map[string]bool{}}
				found[key] = a
			}
			a.paths[ef.target.String()] = true
		}
	}
	// write-once caches: reviewed exemptions, each with its reason
	exempt := map[string]string{
		"Field.ConType": "write-once cache (store control-dependent on ConType == nil) of the container type, which is determined by the position of the field in the document (fragments apply only to the identical type); never printed",
	}
	r.Tables["write_once_exemptions"] = exempt
	// the exemption holds only while the cache is nothing but a cache: the region guarded by "still unset" contains
	// the store and no call. Anything else done there happens on the first evaluation of the parsed request only,
	// which is exactly a difference between the first and the later evaluations.
	for _, fn := range eng.c.allFns {
		for _, b := range fn.Blocks {
			for _, in := range b.Instrs {
				st, ok := in.(*ssa.Store)
				if !ok {
					continue
				}
				fa, ok := st.Addr.(*ssa.FieldAddr)
				if !ok {
					continue
				}
				o, f := fieldOwner(fa.X.Type(), fa.Field)
				if _, isEx := exempt[o+"."+f]; !isEx {
					continue
				}
				// blocks dominated by the "unset" branch that holds the store
				var guardIf *ssa.If
				for _, g := range blockGuards(b) {
					ng := normGuard(g)
					if v, eq, isN := nilCmp(ng.cond); isN && eq == ng.val {
						if _, o2, f2, isF := loadOfField(v); isF && o2 == o && f2 == f {
							guardIf = g.at
						}
					}
				}
				onlyStore := guardIf != nil
				what := ""
				if guardIf != nil {
					region := guardIf.Block().Succs[0]
					for _, b2 := range fn.Blocks {
						if !(b2 == region || region.Dominates(b2)) {
							continue
						}
						for _, in2 := range b2.Instrs {
							if call, isCall := in2.(ssa.CallInstruction); isCall {
								onlyStore = false
								what = fnName(fn) + " calls " + calleeDesc2(call) + " only while " + o + "." + f + " is unset"
							}
						}
					}
				} else {
					what = "the store is not guarded by a test that the field is still unset"
				}
				r.check("C11.PURE", fmt.Sprintf("%s: the %s.%s cache gates nothing but its own store", fnName(fn), o, f), st.Pos(), onlyStore,
					what+": the first evaluation of a parsed request takes a path the later evaluations skip, so the responses differ (first: validation error and no key; later: resolve error and a null)")
			}
		}
	}
	collect(entry, func(ef effect) bool {
		inReq := (ef.target.kind == rParam && ef.target.idx == exeIdx) || (requestTypes[ef.owner] && !isFreshTarget(ef.target))
		if !inReq {
			return false
		}
		if _, ok := exempt[ef.owner+"."+ef.field]; ok && ef.nilOnly {
			return false
		}
		return true
	}, "")
	collect(addEvent, func(ef effect) bool {
		inReq := (strings.Contains(ef.target.sels, "Subscription.field") && (requestTypes[ef.owner] || ef.owner == "")) || (requestTypes[ef.owner] && !isFreshTarget(ef.target))
		if !inReq {
			return false
		}
		if _, ok := exempt[ef.owner+"."+ef.field]; ok && ef.nilOnly {
			return false
		}
		return true
	}, "AddEvent: ")
	var ks []string
	for k := range found {
		ks = append(ks, k)
	}
	sort.Strings(ks)
	for _, k := range ks {
		a := found[k]
		var ps []string
		for p := range a.paths {
			ps = append(ps, p)
		}
		sort.Strings(ps)
		if len(ps) > 4 {
			ps = ps[:4]
		}
		path := []string{"written location(s): " + strings.Join(ps, " ; ")}
		if len(a.e.chain) > 0 {
			path = append(path, "reached through: "+strings.Join(a.e.chain, " -> "))
		}
		r.add("C11.PURE", k, a.e.pos, Violated, "resolution writes into the parsed request: a later resolve of the same document (other variables, other operation) or its printed form can differ from a fresh parse", path...)
	}
	// one obligation per function that writes anything at all: none of its writes may land in the request
	perFn := map[string]int{}
	perFnPos := map[string]effect{}
	for _, fn := range []*ssa.Function{entry, addEvent} {
		if s := eng.sums[fn]; s != nil {
			for _, ef := range s.effects {
				if writeKinds[ef.kind] {
					perFn[fnName(ef.fn)]++
					perFnPos[fnName(ef.fn)] = ef
				}
			}
		}
	}
	bad := map[string]bool{}
	for _, a := range found {
		bad[fnName(a.e.fn)] = true
	}
	var fl []string
	for f := range perFn {
		fl = append(fl, f)
	}
	sort.Strings(fl)
	for _, f := range fl {
		if bad[f] {
			continue
		}
		r.check("C11.PURE", f+": writes nothing reachable from the request", perFnPos[f].fn.Pos(), true, fmt.Sprintf("%d summarised write effects (with every calling context), all into fresh, schema-cache, error or application-owned locations", perFn[f]))
	}
	// positive accounting: how many write effects were examined and found outside the request
	var fns []string
	for f := range eng.sums {
		fns = append(fns, fnName(f))
	}
	r.fnSeen(fns...)
	r.check("C11.PURE", fmt.Sprintf("%s: all other summarised writes land outside the request", fnName(entry)), entry.Pos(), true,
		fmt.Sprintf("%d write effects summarised over %d functions (fixpoint after %d rounds); %d constructs write into the request", nWrites, len(eng.sums), eng.iter, len(found)))
	r.floor("C11.PURE", "write effects summarised for the entry points", nWrites, 40)
	r.floor("C11.PURE", "functions summarised", len(eng.sums), 60)
	c11NoAlias(c, r)
}

func calleeDesc2(call ssa.CallInstruction) string {
	if f := calleeObj(call); f != nil {
		return f.Name() + "()"
	}
	return "a function value"
}

// c11NoAlias: the literals of a parsed request (list and object literals of arguments and variable defaults)
// reach resolvers only as copies: the container coercers (*List).CoerceIn and (*Input).CoerceIn never return
// the value they were given. A list handed on as it is belongs to the parsed request; a resolver that keeps
// it and later changes it changes the request's default for every later call and its printed form.
func c11NoAlias(c *Ctx, r *Report) {
	r.rule("C11.NOALIAS", "(*List).CoerceIn and (*Input).CoerceIn return freshly built containers (or nil): no returned value is derived from the argument by assertion alone")
	n := 0
	for _, name := range []string{"(*List).CoerceIn", "(*Input).CoerceIn"} {
		fn := c.fn(name)
		if fn == nil || len(fn.Params) < 2 {
			r.undecided("C11.NOALIAS", "anchor "+name, 0, "not found")
			continue
		}
		r.fnSeen(fnName(fn))
		arg := fn.Params[1]
		k := 0
		for _, rt := range returnsOf(fn) {
			if len(rt.Results) == 0 {
				continue
			}
			n++
			k++
			bad := false
			leaves, _ := phiLeaves(resolveCell(rt.Results[0]))
			isContainer := func(t types.Type) bool {
				switch t.Underlying().(type) {
				case *types.Slice, *types.Map:
					return true
				}
				return false
			}
			for _, lf := range leaves {
				v := lf.val
				asContainer := false
				for i := 0; i < 6; i++ {
					switch t := v.(type) {
					case *ssa.MakeInterface:
						v = t.X
						continue
					case *ssa.ChangeType:
						v = t.X
						continue
					case *ssa.Extract:
						v = t.Tuple
						continue
					case *ssa.TypeAssert:
						if isContainer(t.AssertedType) {
							asContainer = true
						}
						v = t.X
						continue
					case *ssa.Slice:
						v = t.X
						continue
					}
					break
				}
				if v != ssa.Value(arg) {
					continue
				}
				// the argument as it is: a literal container only under a case that says so (nil and values of a
				// registered Go type belong to nobody's request)
				if !asContainer {
					b := rt.Block()
					if lf.pred != nil {
						b = lf.pred
					}
					for _, ct := range caseTypes(b, arg) {
						if isContainer(ct) {
							asContainer = true
						}
					}
				}
				if asContainer {
					bad = true
				}
			}
			r.check("C11.NOALIAS", fmt.Sprintf("%s: return #%d hands on a container built by the coercer", fnName(fn), k), rt.Pos(), !bad,
				"the argument itself is returned: for a variable that is not given it is the default literal of the parsed request, which then sits in the variable table and in the arguments handed to resolvers - application code that keeps and edits it edits the request")
		}
	}
	r.floor("C11.NOALIAS", "returns of the container coercers", n, 4)
}
