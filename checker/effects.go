package main

// E2: interprocedural effect (mod-set) analysis with provenance, freshness and
// lock context, over go/ssa. Summaries are computed bottom-up over the call
// graph to a fixpoint.

import (
	"fmt"
	"go/token"
	"go/types"
	"os"
	"sort"
	"strings"

	"golang.org/x/tools/go/ssa"
)

// ---- access paths -----------------------------------------------------------

type rootKind int

const (
	rParam rootKind = iota
	rFree
	rGlobal
	rFresh
	rOpaque
)

type apath struct {
	kind rootKind
	idx  int    // parameter / free variable index
	name string // global name, fresh site, opaque description
	sels string // "/Owner.field/[]/..." selector string
}

func (p apath) String() string {
	var r string
	switch p.kind {
	case rParam:
		r = fmt.Sprintf("P%d", p.idx)
	case rFree:
		r = fmt.Sprintf("F%d", p.idx)
	case rGlobal:
		r = "G:" + p.name
	case rFresh:
		r = "fresh:" + p.name
	case rOpaque:
		r = "opaque:" + p.name
	}
	return r + p.sels
}

const maxSels = 9

func (p apath) add(sel string) apath {
	q := p
	q.sels = p.sels + "/" + sel
	// k-limit: collapse the middle
	if strings.Count(q.sels, "/") > maxSels {
		parts := strings.Split(q.sels, "/")[1:]
		// collapse repeated material: keep first 4 and last 4
		np := append([]string{}, parts[:4]...)
		np = append(np, "…")
		np = append(np, parts[len(parts)-4:]...)
		// remove duplicate "…"
		var out []string
		for i, s := range np {
			if s == "…" && i > 0 && out[len(out)-1] == "…" {
				continue
			}
			out = append(out, s)
		}
		q.sels = "/" + strings.Join(out, "/")
	}
	return q
}

func (p apath) selList() []string {
	if p.sels == "" {
		return nil
	}
	return strings.Split(p.sels, "/")[1:]
}

type pathSet map[string]apath

func (s pathSet) add(p apath) bool {
	k := p.String()
	if _, ok := s[k]; ok {
		return false
	}
	if len(s) > 24 {
		return false // cap; over-approximation is reported through Opaque below
	}
	s[k] = p
	return true
}

func (s pathSet) addAll(o pathSet) bool {
	ch := false
	for _, p := range o {
		if s.add(p) {
			ch = true
		}
	}
	return ch
}

func (s pathSet) sorted() []apath {
	var ks []string
	for k := range s {
		ks = append(ks, k)
	}
	sort.Strings(ks)
	var out []apath
	for _, k := range ks {
		out = append(out, s[k])
	}
	return out
}

// ---- effects ------------------------------------------------------------------

type lockRef struct {
	base   ssa.Value // object whose mutex field is locked (intraprocedural identity); nil when lifted
	path   apath     // param-rooted path of that object in the summarised function's terms (when expressible)
	hasP   bool
	class  string // "Owner.field" of the mutex
	shared bool   // acquired with RLock: excludes writers only
}

type effect struct {
	kind     string // store | mapupdate | append | copy | delete | sort | read | callback | lock
	target   apath  // written/read location (last selector names the field or "[]")
	owner    string // declared struct type owning the accessed field ("" for container elements)
	field    string
	elemOf   string // for container writes: owner.field of the container when known
	pos      token.Pos
	fn       *ssa.Function
	chain    []string
	guarded  bool     // the guard-table mutex of the accessed object is held
	gbase    apath    // object whose mutex is needed, param-rooted, when not yet guarded
	gHasP    bool     // gbase expressible in caller terms
	held     []string // classes of mutexes held (must) at the access, accumulated over the chain
	refOnly  bool     // write control-dependent on the overwritten value being a *Ref placeholder
	nilOnly  bool     // write control-dependent on the overwritten value being nil/zero
	what     string   // description for callbacks
	blk      *ssa.BasicBlock
	needLen  int  // >=0: the access happens only when this (slice) parameter of the summarised function is non-empty
	initOnly bool // the access happens only while the receiver Root is uninitialised (types == nil): first use, before NewRoot returns
}

func (e effect) key() string {
	return fmt.Sprintf("%s|%s|%s|%s.%s|%v|%v|%v|%s|%d|%v|%d", e.kind, fnName(e.fn), e.target, e.owner, e.field, e.guarded, e.refOnly, e.gHasP, strings.Join(e.held, ","), e.needLen, e.initOnly, e.pos)
}

type lockEdge struct {
	from, to string
	pos      token.Pos
	fn       *ssa.Function
}

type summary struct {
	effects map[string]effect
	rets    []pathSet
	edges   map[string]lockEdge // lock order edges (class -> class)
	acq     map[string]bool     // lock classes acquired (transitively)
	leaks   []string            // descriptions of Lock without Unlock on some path
}

type effEngine struct {
	c         *Ctx
	sums      map[*ssa.Function]*summary
	guardTab  map[string]string // "Owner.field" -> mutex field name on the same struct
	fnState   map[*ssa.Function]*fnLocal
	iter      int
	wantReads map[string]bool
}

type fnLocal struct {
	provMemo  map[ssa.Value]pathSet
	heldAt    map[ssa.Instruction]map[string]lockRef // must-held
	mayAtRet  map[*ssa.Return]map[string]lockRef
	deferred  map[string]bool
	inProg    map[ssa.Value]bool
	cuts      int                // number of times a provenance cycle was cut (a value met while it was being computed)
	freshFld  map[string]pathSet // fresh alloc field stores: allocKey+sels -> prov
	lockSites []lockSite
}

type lockSite struct {
	call ssa.CallInstruction
	ref  lockRef
	lock bool
}

func newEffEngine(c *Ctx) *effEngine {
	return &effEngine{c: c, sums: map[*ssa.Function]*summary{}, fnState: map[*ssa.Function]*fnLocal{},
		guardTab: map[string]string{
			"Object.meta":        "mu",
			"FieldDef.goField":   "mu",
			"FieldDef.method":    "mu",
			"Root.subscriptions": "subLock",
		},
		wantReads: map[string]bool{"Object.meta": true, "Root.subscriptions": true, "FieldDef.goField": true, "FieldDef.method": true},
	}
}

func isMutexLock(call ssa.CallInstruction) (lock bool, ok bool) {
	f := calleeObj(call)
	if f == nil || f.Pkg() == nil || f.Pkg().Path() != "sync" {
		return false, false
	}
	rt := recvTypeName(f)
	if rt != "Mutex" && rt != "RWMutex" {
		return false, false
	}
	switch f.Name() {
	case "Lock", "RLock":
		return true, true
	case "Unlock", "RUnlock":
		return false, true
	}
	return false, false
}

// isSharedLock: the call is RWMutex.RLock.
func isSharedLock(call ssa.CallInstruction) bool {
	f := calleeObj(call)
	return f != nil && f.Pkg() != nil && f.Pkg().Path() == "sync" && f.Name() == "RLock"
}

func lockID(r lockRef) string {
	return vpath(r.base) + "#" + r.class
}

// local computes per-function lock states.
func (e *effEngine) local(fn *ssa.Function) *fnLocal {
	if st, ok := e.fnState[fn]; ok {
		return st
	}
	st := &fnLocal{provMemo: map[ssa.Value]pathSet{}, heldAt: map[ssa.Instruction]map[string]lockRef{}, mayAtRet: map[*ssa.Return]map[string]lockRef{}, deferred: map[string]bool{}, inProg: map[ssa.Value]bool{}, freshFld: map[string]pathSet{}}
	e.fnState[fn] = st
	if len(fn.Blocks) == 0 {
		return st
	}
	refOf := func(call ssa.CallInstruction) (lockRef, bool) {
		recv := callRecv(call)
		fa, ok := recv.(*ssa.FieldAddr)
		if !ok {
			return lockRef{}, false
		}
		o, f := fieldOwner(fa.X.Type(), fa.Field)
		return lockRef{base: fa.X, class: o + "." + f}, true
	}
	type state struct{ must, may map[string]lockRef }
	in := map[*ssa.BasicBlock]*state{}
	in[fn.Blocks[0]] = &state{map[string]lockRef{}, map[string]lockRef{}}
	work := []*ssa.BasicBlock{fn.Blocks[0]}
	cp := func(m map[string]lockRef) map[string]lockRef {
		o := map[string]lockRef{}
		for k, v := range m {
			o[k] = v
		}
		return o
	}
	iter := 0
	for len(work) > 0 && iter < 5000 {
		iter++
		b := work[0]
		work = work[1:]
		cur := &state{cp(in[b].must), cp(in[b].may)}
		for _, ins := range b.Instrs {
			st.heldAt[ins] = cp(cur.must)
			switch t := ins.(type) {
			case *ssa.Defer:
				if lk, ok := isMutexLock(t); ok && !lk {
					if r, ok := refOf(t); ok {
						st.deferred[lockID(r)] = true
					}
				}
			case *ssa.Call:
				if lk, ok := isMutexLock(t); ok {
					if r, ok := refOf(t); ok {
						id := lockID(r)
						if lk {
							r.shared = isSharedLock(t)
							cur.must[id] = r
							cur.may[id] = r
						} else {
							delete(cur.must, id)
							delete(cur.may, id)
						}
					}
				}
			case *ssa.Return:
				st.mayAtRet[t] = cp(cur.may)
			}
		}
		for _, s := range b.Succs {
			old, ok := in[s]
			if !ok {
				in[s] = &state{cp(cur.must), cp(cur.may)}
				work = append(work, s)
				continue
			}
			ch := false
			for k := range old.must {
				if _, ok := cur.must[k]; !ok {
					delete(old.must, k)
					ch = true
				}
			}
			for k, v := range cur.may {
				if _, ok := old.may[k]; !ok {
					old.may[k] = v
					ch = true
				}
			}
			if ch {
				work = append(work, s)
			}
		}
	}
	for _, b := range fn.Blocks {
		for _, ins := range b.Instrs {
			if call, ok := ins.(ssa.CallInstruction); ok {
				if lk, ok := isMutexLock(call); ok {
					if r, ok := refOf(call); ok {
						st.lockSites = append(st.lockSites, lockSite{call, r, lk})
					}
				}
			}
		}
	}
	return st
}

// ---- provenance -----------------------------------------------------------------

func freshName(c *Ctx, v ssa.Value) string {
	fn := "?"
	if in, ok := v.(ssa.Instruction); ok && in.Parent() != nil {
		fn = fnName(in.Parent())
	}
	pos := valPos(v)
	line := 0
	if pos.IsValid() {
		line = c.fset.Position(pos).Line
	}
	return fmt.Sprintf("%s@%s:%d", fn, c.fileBase(pos), line)
}

func paramIndex(fn *ssa.Function, p *ssa.Parameter) int {
	for i, q := range fn.Params {
		if q == p {
			return i
		}
	}
	return -1
}

func selOfField(t types.Type, i int) string {
	o, f := fieldOwner(t, i)
	return o + "." + f
}

func (e *effEngine) prov(fn *ssa.Function, v ssa.Value) pathSet {
	st := e.local(fn)
	if ps, ok := st.provMemo[v]; ok {
		return ps
	}
	if st.inProg[v] {
		st.cuts++
		return pathSet{}
	}
	st.inProg[v] = true
	cuts0 := st.cuts
	out := pathSet{}
	switch t := v.(type) {
	case *ssa.Parameter:
		out.add(apath{kind: rParam, idx: paramIndex(fn, t)})
	case *ssa.FreeVar:
		for i, fv := range fn.FreeVars {
			if fv == t {
				out.add(apath{kind: rFree, idx: i})
			}
		}
	case *ssa.Global:
		out.add(apath{kind: rGlobal, name: t.Name()})
	case *ssa.Const, *ssa.Function, *ssa.Builtin:
	case *ssa.Alloc:
		if t.Heap || true {
			// address of a local or heap object: a fresh location
			out.add(apath{kind: rFresh, name: freshName(e.c, t)})
		}
	case *ssa.MakeMap, *ssa.MakeSlice, *ssa.MakeChan, *ssa.MakeClosure:
		out.add(apath{kind: rFresh, name: freshName(e.c, v)})
	case *ssa.FieldAddr:
		sel := selOfField(t.X.Type(), t.Field)
		for _, p := range e.prov(fn, t.X) {
			out.add(p.add(sel))
		}
	case *ssa.Field:
		sel := selOfField(t.X.Type(), t.Field)
		for _, p := range e.prov(fn, t.X) {
			out.add(p.add(sel))
		}
	case *ssa.IndexAddr:
		for _, p := range e.prov(fn, t.X) {
			out.add(p.add("[]"))
		}
	case *ssa.Index:
		for _, p := range e.prov(fn, t.X) {
			out.add(p.add("[]"))
		}
	case *ssa.Lookup:
		if _, isMap := t.X.Type().Underlying().(*types.Map); isMap {
			for _, p := range e.prov(fn, t.X) {
				q := p.add("[]")
				if p.kind == rFresh {
					if stored, ok := e.keyedStores(fn, t, p); ok {
						out.addAll(stored)
						continue
					}
					if stored, ok := st.freshFld[q.String()]; ok && len(stored) > 0 {
						out.addAll(stored)
						continue
					}
				}
				out.add(q)
			}
		}
	case *ssa.UnOp:
		if t.Op == token.MUL {
			out.addAll(e.load(fn, t.X))
		}
	case *ssa.Phi:
		for _, x := range t.Edges {
			out.addAll(e.prov(fn, x))
		}
	case *ssa.MakeInterface:
		out.addAll(e.prov(fn, t.X))
	case *ssa.ChangeInterface:
		out.addAll(e.prov(fn, t.X))
	case *ssa.ChangeType:
		out.addAll(e.prov(fn, t.X))
	case *ssa.Convert:
		if _, isB := t.Type().Underlying().(*types.Basic); !isB {
			out.addAll(e.prov(fn, t.X))
		}
	case *ssa.TypeAssert:
		out.addAll(e.prov(fn, t.X))
	case *ssa.Slice:
		out.addAll(e.prov(fn, t.X))
	case *ssa.Extract:
		switch tup := t.Tuple.(type) {
		case *ssa.TypeAssert:
			if t.Index == 0 {
				out.addAll(e.prov(fn, tup.X))
			}
		case *ssa.Next:
			if rg, ok := tup.Iter.(*ssa.Range); ok && t.Index == 2 {
				for _, p := range e.prov(fn, rg.X) {
					out.add(p.add("[]"))
				}
			}
		case *ssa.Lookup:
			if t.Index == 0 {
				out.addAll(e.prov(fn, tup))
			}
		case *ssa.Call:
			out.addAll(e.callRet(fn, tup, t.Index))
		}
	case *ssa.Call:
		out.addAll(e.callRet(fn, t, 0))
	}
	delete(st.inProg, v)
	// a result computed below a cut is partial (it lacks what flows round the cycle): only the value at
	// the head of the computation is complete enough to be remembered
	if st.cuts == cuts0 || len(st.inProg) == 0 {
		st.provMemo[v] = out
	}
	return out
}

// keyedStores refines the flow-insensitive content of a map allocated in fn for one lookup m[K]
// whose key K is the key variable of a range over a map (distinct in every iteration): an update
// m[K] = x under the same K is read by the lookup only if it can execute before it without K being
// redefined in between, i.e. on a path that does not pass K's defining block. Updates under any
// other key value may alias and are all kept.
func (e *effEngine) keyedStores(fn *ssa.Function, lk *ssa.Lookup, root apath) (pathSet, bool) {
	kx, ok := lk.Index.(*ssa.Extract)
	if !ok || kx.Index != 1 {
		return nil, false
	}
	nx, ok := kx.Tuple.(*ssa.Next)
	if !ok {
		return nil, false
	}
	rg, ok := nx.Iter.(*ssa.Range)
	if !ok {
		return nil, false
	}
	if _, isMap := rg.X.Type().Underlying().(*types.Map); !isMap {
		return nil, false
	}
	def := nx.Block()
	out := pathSet{}
	n := 0
	for _, b := range fn.Blocks {
		for i, in := range b.Instrs {
			mu, ok := in.(*ssa.MapUpdate)
			if !ok {
				continue
			}
			same := false
			for _, p := range e.prov(fn, mu.Map) {
				if p.kind == rFresh && p.name == root.name && p.sels == root.sels {
					same = true
				}
			}
			if !same {
				continue
			}
			n++
			if mu.Key == ssa.Value(kx) {
				reaches := false
				if b == lk.Block() {
					for j, in2 := range b.Instrs {
						if in2 == ssa.Instruction(lk) {
							reaches = i < j
							break
						}
					}
				} else if b == def || lk.Block() == def {
					reaches = true // not separated by the key's definition: keep
				} else {
					reaches = reachesWithout(b, lk.Block(), def)
				}
				if !reaches {
					continue
				}
			}
			out.addAll(e.prov(fn, mu.Value))
		}
	}
	if n == 0 {
		return nil, false
	}
	return out, true
}

// load: provenance of the value stored at address a.
func (e *effEngine) load(fn *ssa.Function, a ssa.Value) pathSet {
	out := pathSet{}
	switch t := a.(type) {
	case *ssa.Alloc:
		// union of everything stored directly into the cell
		n := 0
		for _, ref := range *t.Referrers() {
			if st, ok := ref.(*ssa.Store); ok && st.Addr == t {
				out.addAll(e.prov(fn, st.Val))
				n++
			}
		}
		if n == 0 {
			out.add(apath{kind: rFresh, name: freshName(e.c, t)})
		}
		// a struct-typed local: the value is the (fresh) struct itself
		if _, isStruct := t.Type().(*types.Pointer).Elem().Underlying().(*types.Struct); isStruct {
			out.add(apath{kind: rFresh, name: freshName(e.c, t)})
		}
		return out
	case *ssa.FieldAddr:
		// fresh object with known stores to this field, or all stores in this function are fresh and dominate
		if stored, ok := e.storesTo(fn, t); ok {
			return stored
		}
	}
	return e.prov(fn, a)
}

// storesTo: if a is a field of an object allocated in fn (or every store to the same location in fn
// stores a fresh value and one dominates a), the provenance of the stored values.
func (e *effEngine) storesTo(fn *ssa.Function, a *ssa.FieldAddr) (pathSet, bool) {
	baseAlloc := rootAlloc(a.X)
	want := vpath(a)
	out := pathSet{}
	found := false
	domFresh := false
	allFresh := true
	var fieldStores []*ssa.Store
	for _, b := range fn.Blocks {
		for _, in := range b.Instrs {
			st, ok := in.(*ssa.Store)
			if !ok {
				continue
			}
			fa, ok := st.Addr.(*ssa.FieldAddr)
			if !ok || vpath(fa) != want {
				continue
			}
			found = true
			fieldStores = append(fieldStores, st)
			cuts0 := e.local(fn).cuts
			pv := e.prov(fn, st.Val)
			out.addAll(pv)
			// a provenance computed across a cut cycle is partial: it cannot prove freshness
			fresh := len(pv) > 0 && e.local(fn).cuts == cuts0
			for _, p := range pv {
				if p.kind != rFresh {
					fresh = false
				}
			}
			if !fresh {
				allFresh = false
			} else if instrDominates(st, a) {
				domFresh = true
			}
		}
	}
	// a struct copied into the local as a whole (lf := *field): the copy's slice, map and pointer fields
	// alias what the original's fields refer to
	if baseAlloc != nil {
		var sels []string
		for v := ssa.Value(a); ; {
			fa, ok := v.(*ssa.FieldAddr)
			if !ok {
				break
			}
			sels = append([]string{selOfField(fa.X.Type(), fa.Field)}, sels...)
			v = fa.X
		}
		for _, ref := range *baseAlloc.Referrers() {
			if st, ok := ref.(*ssa.Store); ok && st.Addr == ssa.Value(baseAlloc) {
				// killed: a store to this very field that is executed after the copy and before the use
				killed := false
				for _, fs := range fieldStores {
					if instrDominates(st, fs) && instrDominates(fs, a) {
						killed = true
					}
				}
				if killed {
					continue
				}
				for _, p := range e.prov(fn, st.Val) {
					if p.kind == rFresh {
						continue
					}
					for _, sel := range sels {
						p = p.add(sel)
					}
					out.add(p)
					found = true
				}
			}
		}
	}
	if os.Getenv("EFF_DEBUG") != "" && fn.Name() == os.Getenv("EFF_DEBUG") {
		fmt.Printf("DEBUG storesTo %s %s: found=%v base=%v stores=%d out=%v\n", a.Name(), want, found, baseAlloc != nil, len(fieldStores), out.sorted())
	}
	if !found {
		return nil, false
	}
	if baseAlloc != nil {
		return out, true
	}
	if allFresh && domFresh {
		return out, true
	}
	return nil, false
}

// instrDominates: x is executed before y on every path reaching y.
func instrDominates(x, y ssa.Instruction) bool {
	bx, by := x.Block(), y.Block()
	if bx == nil || by == nil {
		return false
	}
	if bx != by {
		return bx.Dominates(by)
	}
	for _, in := range bx.Instrs {
		if in == x {
			return true
		}
		if in == y {
			return false
		}
	}
	return false
}

func rootAlloc(v ssa.Value) *ssa.Alloc {
	for i := 0; i < 8; i++ {
		switch t := v.(type) {
		case *ssa.Alloc:
			return t
		case *ssa.FieldAddr:
			v = t.X
		default:
			return nil
		}
	}
	return nil
}

// subst maps a callee path into the caller's terms.
func (e *effEngine) subst(fn *ssa.Function, call ssa.CallInstruction, callee *ssa.Function, p apath) pathSet {
	out := pathSet{}
	switch p.kind {
	case rParam:
		args := call.Common().Args
		var actual ssa.Value
		if call.Common().IsInvoke() {
			if p.idx == 0 {
				actual = call.Common().Value
			} else if p.idx-1 < len(args) {
				actual = args[p.idx-1]
			}
		} else if p.idx < len(args) {
			actual = args[p.idx]
		}
		if actual == nil {
			out.add(apath{kind: rOpaque, name: "arg"})
			return out
		}
		for _, a := range e.prov(fn, actual) {
			q := a
			for _, s := range p.selList() {
				q = q.add(s)
			}
			for _, nq := range e.normFresh(fn, q, 0) {
				out.add(nq)
			}
		}
	case rFree:
		// binding at the MakeClosure that produced the callee value
		if mc, ok := call.Common().Value.(*ssa.MakeClosure); ok && p.idx < len(mc.Bindings) {
			for _, a := range e.load(fn, mc.Bindings[p.idx]) {
				q := a
				for _, s := range p.selList() {
					q = q.add(s)
				}
				out.add(q)
			}
		} else {
			out.add(apath{kind: rOpaque, name: "closure"})
		}
	default:
		out.add(p)
	}
	return out
}

// normFresh rewrites a path rooted at an object allocated in fn through the values stored
// into that object's fields in fn (flow-insensitive field map of fresh objects).
func (e *effEngine) normFresh(fn *ssa.Function, q apath, depth int) []apath {
	if q.kind != rFresh || depth > 3 {
		return []apath{q}
	}
	st := e.local(fn)
	sels := q.selList()
	for n := len(sels); n >= 1; n-- {
		pre := apath{kind: rFresh, name: q.name, sels: "/" + strings.Join(sels[:n], "/")}
		stored, ok := st.freshFld[pre.String()]
		if !ok || n == len(sels) {
			continue
		}
		var out []apath
		for _, sp := range stored {
			nq := sp
			for _, s := range sels[n:] {
				nq = nq.add(s)
			}
			out = append(out, e.normFresh(fn, nq, depth+1)...)
		}
		if len(out) > 0 {
			return out
		}
	}
	// no store to that field of the fresh object: it may have been filled by a whole-struct copy
	// (only for locations behind a reference held in the copy - an element of a slice or map: the copy's own
	// fields are the copy's own memory)
	behindRef := false
	for _, s := range sels {
		if s == "[]" {
			behindRef = true
		}
	}
	if len(sels) >= 1 && behindRef {
		if stored, ok := st.freshFld[apath{kind: rFresh, name: q.name}.String()+"/*"]; ok {
			var out []apath
			for _, sp := range stored {
				nq := sp
				for _, s := range sels {
					nq = nq.add(s)
				}
				out = append(out, e.normFresh(fn, nq, depth+1)...)
			}
			if len(out) > 0 {
				return out
			}
		}
	}
	return []apath{q}
}

func (e *effEngine) buildFreshFld(fn *ssa.Function) {
	st := e.local(fn)
	st.freshFld = map[string]pathSet{}
	for _, b := range fn.Blocks {
		for _, in := range b.Instrs {
			if mu, ok := in.(*ssa.MapUpdate); ok {
				for _, p := range e.prov(fn, mu.Map) {
					if p.kind != rFresh {
						continue
					}
					k := p.add("[]").String()
					if st.freshFld[k] == nil {
						st.freshFld[k] = pathSet{}
					}
					st.freshFld[k].addAll(e.prov(fn, mu.Value))
				}
				continue
			}
			sto, ok := in.(*ssa.Store)
			if !ok {
				continue
			}
			if ia, isI := sto.Addr.(*ssa.IndexAddr); isI {
				for _, p := range e.prov(fn, ia.X) {
					if p.kind != rFresh {
						continue
					}
					k := p.add("[]").String()
					if st.freshFld[k] == nil {
						st.freshFld[k] = pathSet{}
					}
					st.freshFld[k].addAll(e.prov(fn, sto.Val))
				}
				continue
			}
			if al, isA := sto.Addr.(*ssa.Alloc); isA {
				// a struct copied into a fresh local as a whole: its reference-typed fields alias the original's
				if _, isStruct := al.Type().(*types.Pointer).Elem().Underlying().(*types.Struct); isStruct {
					k := apath{kind: rFresh, name: freshName(e.c, al)}.String() + "/*"
					for _, p := range e.prov(fn, sto.Val) {
						if p.kind == rFresh {
							continue
						}
						if st.freshFld[k] == nil {
							st.freshFld[k] = pathSet{}
						}
						st.freshFld[k].add(p)
					}
				}
				continue
			}
			if _, isF := sto.Addr.(*ssa.FieldAddr); !isF {
				continue
			}
			for _, p := range e.prov(fn, sto.Addr) {
				if p.kind != rFresh {
					continue
				}
				k := p.String()
				if st.freshFld[k] == nil {
					st.freshFld[k] = pathSet{}
				}
				st.freshFld[k].addAll(e.prov(fn, sto.Val))
			}
		}
	}
}

func (e *effEngine) callRet(fn *ssa.Function, call *ssa.Call, idx int) pathSet {
	out := pathSet{}
	if b, ok := call.Call.Value.(*ssa.Builtin); ok {
		switch b.Name() {
		case "append":
			out.addAll(e.prov(fn, call.Call.Args[0]))
			out.add(apath{kind: rFresh, name: freshName(e.c, call)})
		case "make", "new":
			out.add(apath{kind: rFresh, name: freshName(e.c, call)})
		}
		return out
	}
	callees := e.feasibleCallees(call)
	any := false
	for _, cal := range callees {
		if !e.c.inPkg(cal) && cal.Pkg != e.c.SG {
			continue
		}
		any = true
		s := e.sums[cal]
		if s == nil || idx >= len(s.rets) {
			continue
		}
		for _, p := range s.rets[idx] {
			out.addAll(e.subst(fn, call, cal, p))
		}
	}
	if !any {
		name := "call"
		if f := calleeObj(call); f != nil {
			name = f.FullName()
		}
		out.add(apath{kind: rOpaque, name: name})
	}
	return out
}

// ---- summaries ------------------------------------------------------------------

func (e *effEngine) summarize(fn *ssa.Function) bool {
	s := e.sums[fn]
	if s == nil {
		s = &summary{effects: map[string]effect{}, edges: map[string]lockEdge{}, acq: map[string]bool{}}
		e.sums[fn] = s
	}
	st := e.local(fn)
	// provenance depends on callee summaries: recompute each round
	st.provMemo = map[ssa.Value]pathSet{}
	e.buildFreshFld(fn)
	changed := false
	initOnce := isInitOnce(fn)
	var addEff func(ef effect)
	addEff = func(ef effect) {
		if os.Getenv("EFF_DEBUG") != "" && fn.Name() == os.Getenv("EFF_DEBUG") && writeKinds[ef.kind] {
			var nf []string
			for _, nq := range e.normFresh(fn, ef.target, 0) {
				nf = append(nf, nq.String())
			}
			fmt.Printf("DEBUG eff %s %s -> %v at %s\n", ef.kind, ef.target, nf, e.c.pos(ef.pos))
		}
		// a location inside an object allocated during this call is invisible to every caller - unless the path
		// leads, through what was stored into the fresh object (a pointer kept in it, a struct copied into it as
		// a whole), back into memory the caller can see: the write is then also recorded under that name
		if writeKinds[ef.kind] && ef.target.kind == rFresh && len(ef.chain) == 0 && ef.fn == fn {
			for _, nq := range e.normFresh(fn, ef.target, 0) {
				if nq.kind != rFresh && nq.String() != ef.target.String() {
					e2 := ef
					e2.target = nq
					addEff(e2)
				}
			}
		}
		if writeKinds[ef.kind] && isFreshTarget(ef.target) {
			return
		}
		if initOnce {
			ef.initOnly = true
		}
		if ef.fn == fn && len(ef.chain) == 0 {
			ef.needLen = -1
			if ef.blk != nil {
				ef.needLen = lenParamGuard(fn, ef.blk)
			}
		}
		k := ef.key()
		if _, ok := s.effects[k]; !ok {
			if len(s.effects) > 4000 {
				return
			}
			s.effects[k] = ef
			changed = true
		}
	}
	heldClasses := func(in ssa.Instruction) []string {
		var out []string
		for _, r := range st.heldAt[in] {
			if r.shared {
				out = append(out, r.class+"~shared")
			} else {
				out = append(out, r.class)
			}
		}
		sort.Strings(out)
		return out
	}
	// guardedAccess decides whether the access base.field is protected by its guard mutex here.
	guardInfo := func(in ssa.Instruction, base ssa.Value, owner, field string) (guarded bool, gbase apath, hasP bool) {
		mf, need := e.guardTab[owner+"."+field]
		if !need {
			return true, apath{}, false
		}
		for _, r := range st.heldAt[in] {
			if r.class == owner+"."+mf && sameVal(r.base, base) {
				return true, apath{}, false
			}
		}
		// expressible in caller terms?
		ps := e.prov(fn, base)
		if len(ps) == 1 {
			for _, p := range ps {
				if p.kind == rParam {
					return false, p, true
				}
			}
		}
		return false, apath{}, false
	}
	for _, b := range fn.Blocks {
		for _, in := range b.Instrs {
			switch t := in.(type) {
			case *ssa.Store:
				e.recordWrite(fn, st, t, t.Addr, "store", addEff, heldClasses, guardInfo)
			case *ssa.MapUpdate:
				for _, p := range e.prov(fn, t.Map) {
					ef := effect{kind: "mapupdate", target: p.add("[]"), pos: t.Pos(), fn: fn, blk: t.Block(), held: heldClasses(t), guarded: true}
					ef.elemOf = lastField(p)
					addEff(ef)
				}
			case *ssa.UnOp:
				if t.Op != token.MUL {
					continue
				}
				if fa, ok := t.X.(*ssa.FieldAddr); ok {
					o, f := fieldOwner(fa.X.Type(), fa.Field)
					if e.wantReads[o+"."+f] {
						g, gb, hp := guardInfo(t, fa.X, o, f)
						for _, p := range e.prov(fn, fa) {
							addEff(effect{kind: "read", target: p, owner: o, field: f, pos: t.Pos(), fn: fn, blk: t.Block(), guarded: g, gbase: gb, gHasP: hp, held: heldClasses(t)})
						}
					}
				}
			case ssa.CallInstruction:
				e.recordCall(fn, st, t, s, addEff, heldClasses, &changed)
			}
		}
	}
	// return provenance
	nres := fn.Signature.Results().Len()
	if len(s.rets) != nres {
		s.rets = make([]pathSet, nres)
		for i := range s.rets {
			s.rets[i] = pathSet{}
		}
	}
	for _, rt := range returnsOf(fn) {
		for i, res := range rt.Results {
			if i < nres {
				if s.rets[i].addAll(e.prov(fn, res)) {
					changed = true
				}
			}
		}
	}
	return changed
}

func lastField(p apath) string {
	l := p.selList()
	for i := len(l) - 1; i >= 0; i-- {
		if l[i] != "[]" && l[i] != "…" {
			return l[i]
		}
	}
	return ""
}

func (e *effEngine) recordWrite(fn *ssa.Function, st *fnLocal, in ssa.Instruction, addr ssa.Value, kind string,
	addEff func(effect), heldClasses func(ssa.Instruction) []string,
	guardInfo func(ssa.Instruction, ssa.Value, string, string) (bool, apath, bool)) {
	switch a := addr.(type) {
	case *ssa.FieldAddr:
		o, f := fieldOwner(a.X.Type(), a.Field)
		g, gb, hp := guardInfo(in, a.X, o, f)
		refOnly, nilOnly := overwriteGuards(in.Block(), a)
		for _, p := range e.prov(fn, a) {
			addEff(effect{kind: kind, target: p, owner: o, field: f, pos: in.Pos(), fn: fn, blk: in.Block(), guarded: g, gbase: gb, gHasP: hp, held: heldClasses(in), refOnly: refOnly, nilOnly: nilOnly})
		}
	case *ssa.IndexAddr:
		refOnly, _ := overwriteGuards(in.Block(), a)
		for _, p := range e.prov(fn, a.X) {
			ef := effect{kind: kind, target: p.add("[]"), pos: in.Pos(), fn: fn, blk: in.Block(), held: heldClasses(in), guarded: true, refOnly: refOnly}
			ef.elemOf = lastField(p)
			addEff(ef)
		}
	case *ssa.Global:
		addEff(effect{kind: kind, target: apath{kind: rGlobal, name: a.Name()}, owner: "global", field: a.Name(), pos: in.Pos(), fn: fn, blk: in.Block(), held: heldClasses(in), guarded: true})
	case *ssa.Alloc:
		// local cell
	default:
		// *p = v through a pointer value
		refOnly, nilOnly := overwriteGuards(in.Block(), addr)
		for _, p := range e.prov(fn, addr) {
			if p.kind == rFresh {
				continue
			}
			addEff(effect{kind: kind, target: p.add("*"), pos: in.Pos(), fn: fn, blk: in.Block(), held: heldClasses(in), guarded: true, refOnly: refOnly, nilOnly: nilOnly})
		}
	}
}

// overwriteGuards: is the store to addr control-dependent on the current value at addr being a *Ref
// (reference replacement) or nil?
func overwriteGuards(b *ssa.BasicBlock, addr ssa.Value) (refOnly, nilOnly bool) {
	want := vpath(addr)
	for _, g := range blockGuards(b) {
		if f, ok := assertFactOf(g); ok && f.holds && derefNamed(f.t) == "Ref" {
			if u, ok := stripIface(f.x).(*ssa.UnOp); ok && u.Op == token.MUL && vpath(u.X) == want {
				refOnly = true
			}
		}
		ng := normGuard(g)
		if v, eq, ok := nilCmp(ng.cond); ok && eq == ng.val {
			if u, ok := v.(*ssa.UnOp); ok && u.Op == token.MUL && vpath(u.X) == want {
				nilOnly = true
			}
		}
	}
	// range element of a type switch: `switch bt := x.Base.(type) { case *Ref: x.Base = ...`
	for d := b; d != nil; d = d.Idom() {
		for _, p := range d.Preds {
			if len(p.Instrs) == 0 {
				continue
			}
			if ifi, ok := p.Instrs[len(p.Instrs)-1].(*ssa.If); ok && p.Succs[0] == d && len(d.Preds) == 1 {
				if f, ok := assertFactOf(guard{ifi.Cond, true, ifi}); ok && f.holds && derefNamed(f.t) == "Ref" {
					if u, ok := stripIface(f.x).(*ssa.UnOp); ok && u.Op == token.MUL && vpath(u.X) == want {
						refOnly = true
					}
				}
			}
		}
	}
	return
}

func (e *effEngine) recordCall(fn *ssa.Function, st *fnLocal, call ssa.CallInstruction, s *summary,
	addEff func(effect), heldClasses func(ssa.Instruction) []string, changed *bool) {
	cc := call.Common()
	in := call.(ssa.Instruction)
	held := heldClasses(in)
	// builtins
	if b, ok := cc.Value.(*ssa.Builtin); ok {
		switch b.Name() {
		case "append":
			for _, p := range e.prov(fn, cc.Args[0]) {
				ef := effect{kind: "append", target: p.add("[]"), pos: in.Pos(), fn: fn, blk: in.Block(), held: held, guarded: true}
				ef.elemOf = lastField(p)
				addEff(ef)
			}
		case "copy":
			for _, p := range e.prov(fn, cc.Args[0]) {
				ef := effect{kind: "copy", target: p.add("[]"), pos: in.Pos(), fn: fn, blk: in.Block(), held: held, guarded: true}
				ef.elemOf = lastField(p)
				addEff(ef)
			}
		case "delete":
			for _, p := range e.prov(fn, cc.Args[0]) {
				ef := effect{kind: "delete", target: p.add("[]"), pos: in.Pos(), fn: fn, blk: in.Block(), held: held, guarded: true}
				ef.elemOf = lastField(p)
				addEff(ef)
			}
		}
		return
	}
	// mutex operations: order edges
	if lk, ok := isMutexLock(call); ok {
		if lk {
			if fa, ok := callRecv(call).(*ssa.FieldAddr); ok {
				o, f := fieldOwner(fa.X.Type(), fa.Field)
				cls := o + "." + f
				if !s.acq[cls] {
					s.acq[cls] = true
					*changed = true
				}
				for _, h := range held {
					k := h + "->" + cls
					if _, ok := s.edges[k]; !ok {
						s.edges[k] = lockEdge{h, cls, in.Pos(), fn}
						*changed = true
					}
				}
			}
		}
		return
	}
	// known external mutators
	if f := calleeObj(call); f != nil && f.Pkg() != nil && f.Pkg() != e.c.P.Types && f.Pkg() != e.c.G.Types {
		pk := f.Pkg().Path()
		switch {
		case pk == "sort" && (f.Name() == "Slice" || f.Name() == "Strings" || f.Name() == "Ints" || f.Name() == "SliceStable" || f.Name() == "Sort"):
			for _, p := range e.prov(fn, cc.Args[0]) {
				ef := effect{kind: "sort", target: p.add("[]"), pos: in.Pos(), fn: fn, blk: in.Block(), held: held, guarded: true}
				ef.elemOf = lastField(p)
				addEff(ef)
			}
		}
		// closures passed to externals are assumed to be invoked there
		for _, a := range cc.Args {
			if mc, ok := a.(*ssa.MakeClosure); ok {
				if cf, ok := mc.Fn.(*ssa.Function); ok {
					e.liftCallee(fn, st, call, cf, mc, s, addEff, held, changed)
				}
			}
		}
		// application callbacks: record (for C20) invocations of Subscriber methods
		return
	}
	if cc.IsInvoke() {
		if n, ok := cc.Value.Type().(*types.Named); ok && n.Obj().Pkg() == e.c.P.Types {
			switch n.Obj().Name() {
			case "Subscriber", "Resolver", "AnyResolver", "ListResolver", "Nester":
				rcv := "?"
				for _, p := range e.prov(fn, cc.Value) {
					rcv = p.String()
					break
				}
				addEff(effect{kind: "callback", target: apath{kind: rOpaque, name: n.Obj().Name() + "." + cc.Method.Name()}, owner: n.Obj().Name(), field: cc.Method.Name(), pos: in.Pos(), fn: fn, blk: in.Block(), held: held, guarded: true, what: rcv})
			}
		}
	}
	for _, cal := range e.feasibleCallees(call) {
		if !e.c.inPkg(cal) && cal.Pkg != e.c.SG {
			continue
		}
		var mc *ssa.MakeClosure
		if m, ok := cc.Value.(*ssa.MakeClosure); ok {
			mc = m
		}
		e.liftCallee(fn, st, call, cal, mc, s, addEff, held, changed)
	}
}

func (e *effEngine) liftCallee(fn *ssa.Function, st *fnLocal, call ssa.CallInstruction, cal *ssa.Function, mc *ssa.MakeClosure,
	s *summary, addEff func(effect), held []string, changed *bool) {
	cs := e.sums[cal]
	if cs == nil {
		return
	}
	in := call.(ssa.Instruction)
	for _, ce := range cs.effects {
		var targets pathSet
		if mc != nil && ce.target.kind == rFree {
			targets = pathSet{}
			if ce.target.idx < len(mc.Bindings) {
				for _, a := range e.load(fn, mc.Bindings[ce.target.idx]) {
					q := a
					for _, sl := range ce.target.selList() {
						q = q.add(sl)
					}
					targets.add(q)
				}
			}
		} else {
			targets = e.subst(fn, call, cal, ce.target)
		}
		// `*p = v` in the callee where the caller hands in `&x.f`: a write of the field x.f
		var addrOf *ssa.FieldAddr
		if ce.owner == "" && ce.target.kind == rParam && ce.target.sels == "/*" {
			args := call.Common().Args
			idx := ce.target.idx
			if call.Common().IsInvoke() {
				idx--
			}
			if idx >= 0 && idx < len(args) {
				addrOf, _ = args[idx].(*ssa.FieldAddr)
			}
		}
		for _, tp := range targets {
			ne := ce
			ne.target = tp
			if ce.owner == "" {
				ne.elemOf = lastField(tp)
			}
			if addrOf != nil && strings.HasSuffix(tp.sels, "/*") {
				ne.target.sels = strings.TrimSuffix(tp.sels, "/*")
				ne.owner, ne.field = fieldOwner(addrOf.X.Type(), addrOf.Field)
				ne.elemOf = ""
			}
			if ce.needLen >= 0 {
				args := call.Common().Args
				idx := ce.needLen
				if call.Common().IsInvoke() {
					idx--
				}
				ne.needLen = -1
				if idx >= 0 && idx < len(args) {
					a := args[idx]
					if isNilConst(a) {
						continue // the callee's precondition (non-empty slice argument) cannot hold at this call site
					}
					if pp, ok := a.(*ssa.Parameter); ok {
						ne.needLen = paramIndex(fn, pp)
					}
				}
			}
			ne.chain = append([]string{fnName(cal)}, ce.chain...)
			if len(ne.chain) > 8 {
				ne.chain = ne.chain[:8]
			}
			hs := map[string]bool{}
			for _, h := range ce.held {
				hs[h] = true
			}
			for _, h := range held {
				hs[h] = true
			}
			ne.held = nil
			for h := range hs {
				ne.held = append(ne.held, h)
			}
			sort.Strings(ne.held)
			if !ce.guarded {
				ne.gHasP = false
				if ce.gHasP && ce.gbase.kind == rParam {
					// the object whose mutex is needed, in caller terms
					var actual ssa.Value
					args := call.Common().Args
					if call.Common().IsInvoke() {
						if ce.gbase.idx == 0 {
							actual = call.Common().Value
						} else if ce.gbase.idx-1 < len(args) {
							actual = args[ce.gbase.idx-1]
						}
					} else if ce.gbase.idx < len(args) {
						actual = args[ce.gbase.idx]
					}
					mf := e.guardTab[ce.owner+"."+ce.field]
					if actual != nil && ce.gbase.sels == "" {
						for _, r := range st.heldAt[in] {
							if r.class == ce.owner+"."+mf && sameVal(stripIface(r.base), stripIface(actual)) {
								ne.guarded = true
							}
						}
						if !ne.guarded {
							ps := e.prov(fn, actual)
							if len(ps) == 1 {
								for _, p := range ps {
									if p.kind == rParam {
										ne.gbase = p
										ne.gHasP = true
									}
								}
							}
						}
					}
				}
			}
			addEff(ne)
		}
	}
	for cls := range cs.acq {
		if !s.acq[cls] {
			s.acq[cls] = true
			*changed = true
		}
		for _, h := range held {
			k := h + "->" + cls
			if _, ok := s.edges[k]; !ok {
				s.edges[k] = lockEdge{h, cls, in.Pos(), fn}
				*changed = true
			}
		}
	}
	for k, ed := range cs.edges {
		if _, ok := s.edges[k]; !ok {
			s.edges[k] = ed
			*changed = true
		}
	}
}

// run computes summaries for all functions reachable from roots, to a fixpoint.
func (e *effEngine) run(roots ...*ssa.Function) {
	reach := e.c.reachable(roots...)
	var fns []*ssa.Function
	for f := range reach {
		if (e.c.inPkg(f) || f.Pkg == e.c.SG) && len(f.Blocks) > 0 {
			fns = append(fns, f)
		}
	}
	sort.Slice(fns, func(i, j int) bool { return fnName(fns[i]) < fnName(fns[j]) })
	for round := 0; round < 40; round++ {
		e.iter = round + 1
		changed := false
		for _, f := range fns {
			if e.summarize(f) {
				changed = true
			}
		}
		if !changed {
			break
		}
	}
}

// ---- classification ---------------------------------------------------------------

var schemaTypes = map[string]bool{
	"Root": true, "Object": true, "FieldDef": true, "Arg": true, "Input": true, "InputField": true, "Enum": true,
	"EnumValue": true, "Union": true, "Interface": true, "Directive": true, "DirectiveUse": true, "List": true,
	"NonNull": true, "Schema": true, "Scalar": true, "Base": true, "Ref": true, "uuSchema": true,
	"typeList": true, "fieldList": true, "argList": true, "inputFieldList": true, "enumValueList": true,
}

var requestTypes = map[string]bool{
	"Executable": true, "Op": true, "Field": true, "Inline": true, "Fragment": true, "FragRef": true,
	"VarDef": true, "ArgValue": true, "SelBase": true,
}

func ownerOfSel(sel string) string {
	if i := strings.IndexByte(sel, '.'); i > 0 {
		return sel[:i]
	}
	return ""
}

// pathMentions reports whether any selector of p is owned by one of the given types.
func pathMentions(p apath, set map[string]bool) bool {
	for _, s := range p.selList() {
		if set[ownerOfSel(s)] {
			return true
		}
	}
	return false
}

func (e effect) descr() string {
	t := e.owner + "." + e.field
	if e.owner == "" {
		t = "element of " + e.elemOf
		if e.elemOf == "" {
			t = "container element"
		}
	}
	return e.kind + " " + t
}

func (e effect) chainStr() []string {
	out := append([]string{}, e.chain...)
	return out
}

// isFreshTarget: the written location lies inside an object allocated by the summarised code:
// rooted at a fresh allocation and not reached by loading an element out of a container
// (elements of a fresh container have unknown provenance; the container's own slots are fresh).
func isFreshTarget(p apath) bool {
	if p.kind != rFresh {
		return false
	}
	l := p.selList()
	for i, s := range l {
		if (s == "[]" || s == "…" || s == "*") && i != len(l)-1 {
			return false
		}
	}
	return true
}

// isInitOnce: fn is a method on *Root that returns immediately when recv.types != nil.
func isInitOnce(fn *ssa.Function) bool {
	if len(fn.Blocks) == 0 || len(fn.Params) == 0 {
		return false
	}
	b := fn.Blocks[0]
	ifi, ok := b.Instrs[len(b.Instrs)-1].(*ssa.If)
	if !ok {
		return false
	}
	g := normGuard(guard{ifi.Cond, true, ifi})
	v, eq, ok := nilCmp(g.cond)
	if !ok {
		return false
	}
	base, o, f, ok := loadOfField(v)
	if !ok || o != "Root" || f != "types" || spilledParam(base) != fn.Params[0] {
		return false
	}
	// the branch where types != nil must return at once
	nonNilEdge := 0
	if eq == g.val { // cond true means types == nil
		nonNilEdge = 1
	}
	tb := b.Succs[nonNilEdge]
	if len(tb.Instrs) == 0 {
		return false
	}
	_, isRet := tb.Instrs[len(tb.Instrs)-1].(*ssa.Return)
	return isRet && len(tb.Instrs) <= 2
}

// lenParamGuard: index of a slice parameter p such that block b is dominated by len(p) > 0, or -1.
func lenParamGuard(fn *ssa.Function, b *ssa.BasicBlock) int {
	for _, g := range blockGuards(b) {
		g = normGuard(g)
		v, op, k, ok := intCmp(g.cond)
		if !ok {
			continue
		}
		x, isLen := isLenOf(v)
		if !isLen {
			continue
		}
		p, isP := x.(*ssa.Parameter)
		if !isP {
			continue
		}
		if !g.val {
			op = negOp(op)
		}
		if (op == token.GTR && k == 0) || (op == token.NEQ && k == 0) || (op == token.GEQ && k == 1) {
			return paramIndex(fn, p)
		}
	}
	return -1
}

func instrAt(fn *ssa.Function, pos token.Pos) ssa.Instruction {
	if !pos.IsValid() {
		return nil
	}
	for _, b := range fn.Blocks {
		for _, in := range b.Instrs {
			if in.Pos() == pos {
				if _, isDbg := in.(*ssa.DebugRef); isDbg {
					continue
				}
				return in
			}
		}
	}
	return nil
}

// spilledParam: v is a parameter, or a load of a local cell whose only stored value is a parameter
// (parameters captured by closures are spilled by go/ssa).
func spilledParam(v ssa.Value) *ssa.Parameter {
	if p, ok := v.(*ssa.Parameter); ok {
		return p
	}
	u, ok := v.(*ssa.UnOp)
	if !ok || u.Op != token.MUL {
		return nil
	}
	al, ok := u.X.(*ssa.Alloc)
	if !ok {
		return nil
	}
	var found *ssa.Parameter
	for _, ref := range *al.Referrers() {
		if st, ok := ref.(*ssa.Store); ok && st.Addr == al {
			p, isP := st.Val.(*ssa.Parameter)
			if !isP || (found != nil && found != p) {
				return nil
			}
			found = p
		}
	}
	return found
}

// feasibleCallees refines the call graph's callees of an interface invoke by the type-assertion
// facts that dominate the call: if the receiver value is (an assertion of) x and `x.(T)` is known to
// have failed on every path to the call, no method with receiver type T can be the callee.
func (e *effEngine) feasibleCallees(call ssa.CallInstruction) []*ssa.Function {
	all := e.c.calleesOf(call)
	cc := call.Common()
	if !cc.IsInvoke() || len(all) < 2 {
		return all
	}
	// root of the receiver value
	rootOf := func(v ssa.Value) ssa.Value {
		for i := 0; i < 6; i++ {
			switch t := v.(type) {
			case *ssa.Extract:
				if ta, ok := t.Tuple.(*ssa.TypeAssert); ok {
					v = ta.X
					continue
				}
			case *ssa.TypeAssert:
				v = t.X
				continue
			case *ssa.ChangeInterface:
				v = t.X
				continue
			case *ssa.MakeInterface:
				v = t.X
				continue
			}
			break
		}
		return v
	}
	recv := rootOf(cc.Value)
	excluded := map[string]bool{}
	for _, f := range assertFacts(call.(ssa.Instruction).Block()) {
		if !f.holds && sameVal(rootOf(f.x), recv) {
			excluded[typeStr(f.t)] = true
		}
	}
	if len(excluded) == 0 {
		return all
	}
	var out []*ssa.Function
	for _, cal := range all {
		if cal.Signature.Recv() != nil && excluded[typeStr(cal.Signature.Recv().Type())] {
			continue
		}
		out = append(out, cal)
	}
	return out
}
