package main

// Normal forms of the source.
//
// Most rules are anchored in a function the property names (the list resolver, the event dispatcher, the
// loader, ...) and read the shape of that function's body. A behaviour-preserving refactoring that moves a
// part of such a body into a new unexported helper leaves the behaviour alone and changes the shape: the
// append, the index prefix, the save/restore pair are now one call away. Instead of teaching every rule to
// look through calls, the checker normalises the source: an unexported, non-recursive helper that no rule
// is anchored in is inlined at its call sites (a source-to-source rewriting that preserves the semantics:
// arguments are evaluated once, in order, into the parameters; every return becomes an assignment to the
// result temporaries followed by a jump to the end of the inlined body), the helper's declaration is
// removed when no reference is left, and the property is decided again on that text. A verdict "holds" on
// a normal form is a verdict on the tree as written, because the two texts denote the same program. The
// normal form is tried only when the rules do not discharge everything on the text as written, and only
// helpers connected to the obligations that failed are inlined.
//
// What is not inlined (the call stays, the helper stays): calls in positions where hoisting would change
// the order of evaluation (right operand of && / ||, loop conditions, case expressions, defer / go, after
// another call of the same statement), method values, helpers with defer, recover, goto or labels,
// generic helpers, self-recursive helpers, helpers whose body names something the call site shadows.

import (
	"bytes"
	"embed"
	"fmt"
	"go/ast"
	"go/format"
	"go/scanner"
	"go/token"
	"go/types"
	"os"
	"path/filepath"
	"regexp"
	"sort"
	"strconv"
	"strings"

	"golang.org/x/tools/go/packages"
)

//go:embed *.go
var checkerSources embed.FS

var anchorLit = regexp.MustCompile(`^(?:\(\*?\w+\)\.|\w+\.)?(\w+)$`)

// anchorWords: the bare names of every function, method or field the rules name in a string literal of
// their own (c.fn("(*Root).resolveList"), fn.Name() == "skipSel", ...). A helper with such a name is one a
// rule is anchored in and is never inlined.
func anchorWords() map[string]bool {
	out := map[string]bool{}
	ents, _ := checkerSources.ReadDir(".")
	for _, e := range ents {
		if e.Name() == "normalform.go" {
			continue
		}
		src, err := checkerSources.ReadFile(e.Name())
		if err != nil {
			continue
		}
		fs := token.NewFileSet()
		f := fs.AddFile(e.Name(), -1, len(src))
		var s scanner.Scanner
		s.Init(f, src, nil, 0)
		for {
			_, tok, lit := s.Scan()
			if tok == token.EOF {
				break
			}
			if tok != token.STRING {
				continue
			}
			v, err := strconv.Unquote(lit)
			if err != nil {
				continue
			}
			if m := anchorLit.FindStringSubmatch(v); m != nil {
				out[m[1]] = true
			}
		}
	}
	return out
}

type nfResult struct {
	overlay map[string][]byte
	inlined []string // helper: number of call sites
	kept    []string // helper: why a reference was left alone
}

// normalForm inlines the helpers selected by pick into their call sites in pkg/ggql.
func normalForm(repo string, pick func(name string) bool) (*nfResult, error) {
	res := &nfResult{overlay: map[string][]byte{}}
	inlinedSites := map[string]int{}
	kept := map[string]string{}
	giveUp := map[string]bool{}
	counter, origSize := 0, 0
	for iter := 0; iter < 25; iter++ {
		p, fset, err := loadForNF(repo, res.overlay)
		if err != nil {
			return nil, err
		}
		nf := &nfPass{p: p, fset: fset, info: p.TypesInfo, files: map[string][]byte{}, n: counter}
		nf.readFiles(res.overlay)
		if origSize == 0 {
			for _, b := range nf.files {
				origSize += len(b)
			}
		}
		size := 0
		for _, b := range nf.files {
			size += len(b)
		}
		if size > 4*origSize {
			return nil, fmt.Errorf("normal form: the rewritten package grew from %d to %d bytes; given up", origSize, size)
		}
		// one round: every candidate's call sites are rewritten together as far as the edits do not touch
		// each other; what is left waits for the next round (positions and types are re-read then)
		type plan struct {
			cand      *nfCand
			edits     []textEdit
			remaining int
			why       string
			dropped   int
			noDelete  bool
		}
		var plans []*plan
		for _, cand := range nf.candidates(pick, giveUp, kept) {
			edits, nsites, remaining, why := nf.inlineAll(cand)
			if nsites == 0 {
				giveUp[cand.name] = true
				if why != "" {
					kept[cand.name] = why
				}
				continue
			}
			plans = append(plans, &plan{cand: cand, edits: edits, remaining: remaining, why: why})
		}
		if len(plans) == 0 {
			break
		}
		declRange := func(pl *plan) (string, int, int) {
			d := nf.deleteDecl(pl.cand)
			return d.file, d.start, d.end
		}
		// a call site inside the declaration of a helper that disappears this round is dropped (its copies
		// at that helper's call sites are rewritten next round)
		for _, pl := range plans {
			var keep []textEdit
			for _, e := range pl.edits {
				inside := false
				for _, other := range plans {
					if other == pl || other.remaining != 0 {
						continue
					}
					f, a, b := declRange(other)
					if f == e.file && a <= e.start && e.end <= b {
						inside = true
					}
				}
				if inside {
					pl.dropped++
				} else {
					keep = append(keep, e)
				}
			}
			pl.edits = keep
		}
		// of two edits that touch each other the outer one stays
		type owned struct {
			e  textEdit
			pl *plan
		}
		var all []owned
		for _, pl := range plans {
			for _, e := range pl.edits {
				all = append(all, owned{e, pl})
			}
		}
		sort.Slice(all, func(i, j int) bool {
			if all[i].e.file != all[j].e.file {
				return all[i].e.file < all[j].e.file
			}
			if all[i].e.start != all[j].e.start {
				return all[i].e.start < all[j].e.start
			}
			return all[i].e.end > all[j].e.end
		})
		var accepted []owned
		for _, o := range all {
			if n := len(accepted); n > 0 && accepted[n-1].e.file == o.e.file && o.e.start < accepted[n-1].e.end {
				o.pl.dropped++
				continue
			}
			accepted = append(accepted, o)
		}
		// a helper whose body is copied this round keeps alive what that body calls
		copied := map[*plan]bool{}
		for _, o := range accepted {
			copied[o.pl] = true
		}
		for pl := range copied {
			ast.Inspect(pl.cand.decl.Body, func(n ast.Node) bool {
				if id, ok := n.(*ast.Ident); ok {
					for _, other := range plans {
						if other != pl && nf.info.Uses[id] == types.Object(other.cand.obj) {
							other.noDelete = true
						}
					}
				}
				return true
			})
		}
		var edits []textEdit
		counts := map[*plan]int{}
		for _, o := range accepted {
			edits = append(edits, o.e)
			counts[o.pl]++
		}
		if len(edits) == 0 {
			break
		}
		for _, pl := range plans {
			if counts[pl] == 0 {
				continue
			}
			if pl.remaining == 0 && pl.dropped == 0 && !pl.noDelete {
				edits = append(edits, nf.deleteDecl(pl.cand))
			} else if pl.why != "" {
				kept[pl.cand.name] = pl.why
			}
			inlinedSites[pl.cand.name] += counts[pl]
		}
		if err := nf.apply(edits, res.overlay); err != nil {
			return nil, fmt.Errorf("inlining: %w", err)
		}
		counter = nf.n
	}
	if len(inlinedSites) == 0 {
		return res, nil
	}
	// imports that the removal of a helper left unused
	for round := 0; round < 4; round++ {
		unused, err := unusedImports(repo, res.overlay)
		if err != nil {
			return nil, err
		}
		if len(unused) == 0 {
			break
		}
		if err := dropImports(repo, res.overlay, unused); err != nil {
			return nil, err
		}
	}
	for k, n := range inlinedSites {
		res.inlined = append(res.inlined, fmt.Sprintf("%s (%d call sites)", k, n))
	}
	for k, w := range kept {
		res.kept = append(res.kept, k+": "+w)
	}
	sort.Strings(res.inlined)
	sort.Strings(res.kept)
	return res, nil
}

func nfEnv() []string {
	return append(os.Environ(), "GOFLAGS=-mod=mod", "GOPROXY=off", "GOSUMDB=off", "GOWORK=off", "GOTOOLCHAIN=local")
}

func loadForNF(repo string, overlay map[string][]byte) (*packages.Package, *token.FileSet, error) {
	fset := token.NewFileSet()
	cfg := &packages.Config{Mode: packages.LoadSyntax, Dir: repo, Env: nfEnv(), Fset: fset, Overlay: withBase(overlay)}
	pkgs, err := packages.Load(cfg, "./pkg/ggql")
	if err != nil {
		return nil, nil, err
	}
	if len(pkgs) != 1 {
		return nil, nil, fmt.Errorf("normal form: expected one package, got %d", len(pkgs))
	}
	var es []string
	for _, e := range pkgs[0].Errors {
		// an import that the removal of a helper left unused is dropped at the end
		if strings.Contains(e.Error(), "imported and not used") || strings.HasPrefix(e.Error(), "-: #") {
			continue
		}
		es = append(es, e.Error())
	}
	if len(es) > 0 {
		return nil, nil, fmt.Errorf("normal form: the rewritten package does not type-check:\n  %s", strings.Join(es, "\n  "))
	}
	return pkgs[0], fset, nil
}

type nfPass struct {
	p     *packages.Package
	fset  *token.FileSet
	info  *types.Info
	files map[string][]byte
	n     int
	// imports to add: file -> package path -> local name
	addImports map[string]map[string]string
}

type nfCand struct {
	name string // rendering like fnName: (*Root).resolveElem, coerceArgIn
	obj  *types.Func
	decl *ast.FuncDecl
	file *ast.File
}

type textEdit struct {
	file       string
	start, end int
	text       string
}

func (nf *nfPass) src(file string) []byte {
	if b, ok := nf.files[file]; ok {
		return b
	}
	return nil
}

func (nf *nfPass) readFiles(overlay map[string][]byte) {
	overlay = withBase(overlay)
	for _, f := range nf.p.Syntax {
		name := nf.fset.Position(f.Pos()).Filename
		if b, ok := overlay[name]; ok {
			nf.files[name] = b
		} else if b, err := os.ReadFile(name); err == nil {
			nf.files[name] = b
		}
	}
}

func funcRendering(obj *types.Func) string {
	sig := obj.Type().(*types.Signature)
	if r := sig.Recv(); r != nil {
		t := r.Type()
		star := ""
		if p, ok := t.(*types.Pointer); ok {
			t = p.Elem()
			star = "*"
		}
		if n, ok := t.(*types.Named); ok {
			return "(" + star + n.Obj().Name() + ")." + obj.Name()
		}
	}
	return obj.Name()
}

func (nf *nfPass) candidates(pick func(string) bool, giveUp map[string]bool, kept map[string]string) []*nfCand {
	var out []*nfCand
	for _, f := range nf.p.Syntax {
		for _, d := range f.Decls {
			fd, ok := d.(*ast.FuncDecl)
			if !ok || fd.Body == nil || fd.Name.IsExported() || fd.Name.Name == "init" || fd.Name.Name == "_" {
				continue
			}
			obj, ok := nf.info.Defs[fd.Name].(*types.Func)
			if !ok {
				continue
			}
			name := funcRendering(obj)
			if giveUp[name] || !pick(name) {
				continue
			}
			if why := nf.bodyUnsuitable(fd, obj); why != "" {
				giveUp[name] = true
				kept[name] = why
				continue
			}
			out = append(out, &nfCand{name, obj, fd, f})
		}
	}
	// helpers that reach themselves through other candidates are left alone: inlining one into the other
	// would never end
	idx := map[*types.Func]int{}
	for i, c := range out {
		idx[c.obj] = i
	}
	adj := make([][]int, len(out))
	for i, c := range out {
		seen := map[int]bool{}
		ast.Inspect(c.decl.Body, func(n ast.Node) bool {
			if id, ok := n.(*ast.Ident); ok {
				if f, ok := nf.info.Uses[id].(*types.Func); ok {
					if j, ok := idx[f]; ok && !seen[j] {
						seen[j] = true
						adj[i] = append(adj[i], j)
					}
				}
			}
			return true
		})
	}
	inCycle := make([]bool, len(out))
	for i := range out {
		// does i reach i?
		vis := map[int]bool{}
		var dfs func(k int) bool
		dfs = func(k int) bool {
			for _, j := range adj[k] {
				if j == i {
					return true
				}
				if !vis[j] {
					vis[j] = true
					if dfs(j) {
						return true
					}
				}
			}
			return false
		}
		inCycle[i] = dfs(i)
	}
	var acyclic []*nfCand
	for i, c := range out {
		if inCycle[i] {
			giveUp[c.name] = true
			kept[c.name] = "reaches itself through other helpers"
			continue
		}
		acyclic = append(acyclic, c)
	}
	out = acyclic
	sort.Slice(out, func(i, j int) bool { return out[i].name < out[j].name })
	return out
}

func (nf *nfPass) bodyUnsuitable(fd *ast.FuncDecl, obj *types.Func) string {
	sig := obj.Type().(*types.Signature)
	if sig.TypeParams() != nil || sig.RecvTypeParams() != nil {
		return "generic"
	}
	why := ""
	ast.Inspect(fd.Body, func(n ast.Node) bool {
		switch t := n.(type) {
		case *ast.DeferStmt:
			if nf.deferredUnlock(fd) != t {
				why = "has a defer"
			}
		case *ast.BranchStmt:
			if t.Tok == token.GOTO {
				why = "has a goto"
			}
		case *ast.CallExpr:
			if id, ok := t.Fun.(*ast.Ident); ok && id.Name == "recover" {
				why = "calls recover"
			}
			if nf.calleeOf(t) == obj {
				why = "calls itself"
			}
		case *ast.Ident:
			// a reference to itself that is not a call (method value) also counts
			if nf.info.Uses[t] == obj {
				why = "refers to itself"
			}
		}
		return why == ""
	})
	return why
}

// deferredUnlock: the one deferred call of a locked accessor - `defer x.mu.Unlock()` (or RUnlock) as a statement of
// the body itself, the only defer of the function, with no return before it. Inlined, the call is made at
// every exit after the results have been evaluated, which is when the deferred call runs; the two texts agree on
// every execution that does not panic inside the helper.
func (nf *nfPass) deferredUnlock(fd *ast.FuncDecl) *ast.DeferStmt {
	var only *ast.DeferStmt
	n := 0
	ast.Inspect(fd.Body, func(x ast.Node) bool {
		if d, ok := x.(*ast.DeferStmt); ok {
			n++
			only = d
		}
		return true
	})
	if n != 1 {
		return nil
	}
	top := false
	for _, st := range fd.Body.List {
		if st == ast.Stmt(only) {
			top = true
			break
		}
		ret := false
		ast.Inspect(st, func(x ast.Node) bool {
			if _, ok := x.(*ast.ReturnStmt); ok {
				ret = true
			}
			return !ret
		})
		if ret {
			return nil
		}
	}
	if !top || len(only.Call.Args) != 0 {
		return nil
	}
	sel, ok := only.Call.Fun.(*ast.SelectorExpr)
	if !ok || (sel.Sel.Name != "Unlock" && sel.Sel.Name != "RUnlock") {
		return nil
	}
	return only
}

func (nf *nfPass) calleeOf(call *ast.CallExpr) *types.Func {
	switch f := ast.Unparen(call.Fun).(type) {
	case *ast.Ident:
		if o, ok := nf.info.Uses[f].(*types.Func); ok {
			return o
		}
	case *ast.SelectorExpr:
		if sel := nf.info.Selections[f]; sel != nil {
			if sel.Kind() == types.MethodVal {
				if o, ok := sel.Obj().(*types.Func); ok {
					return o
				}
			}
			return nil
		}
		if o, ok := nf.info.Uses[f.Sel].(*types.Func); ok {
			return o // qualified identifier
		}
	}
	return nil
}

// site: one call of the candidate with its syntactic context.
type nfSite struct {
	call  *ast.CallExpr
	file  *ast.File
	stack []ast.Node // ancestors, outermost first, excluding call
}

// inlineAll produces the edits for every call site of cand that can be inlined in this pass (at most one
// per statement), the number of sites rewritten, and the number of references left.
func (nf *nfPass) inlineAll(cand *nfCand) (edits []textEdit, nsites, remaining int, why string) {
	uses := 0
	for id, o := range nf.info.Uses {
		if o == cand.obj {
			_ = id
			uses++
		}
	}
	var sites []nfSite
	for _, f := range nf.p.Syntax {
		var stack []ast.Node
		ast.Inspect(f, func(n ast.Node) bool {
			if n == nil {
				stack = stack[:len(stack)-1]
				return true
			}
			if call, ok := n.(*ast.CallExpr); ok && nf.calleeOf(call) == cand.obj {
				sites = append(sites, nfSite{call, f, append([]ast.Node(nil), stack...)})
			}
			stack = append(stack, n)
			return true
		})
	}
	usedStmt := map[ast.Stmt]bool{}
	done := 0
	for _, s := range sites {
		e, stmt, w := nf.inlineSite(cand, s)
		if w != "" {
			if why == "" {
				why = fmt.Sprintf("call at %s: %s", nf.short(s.call.Pos()), w)
			}
			continue
		}
		if usedStmt[stmt] {
			continue // next pass
		}
		// a statement nested in another rewritten statement waits for the next pass as well
		nested := false
		for other := range usedStmt {
			if other.Pos() <= stmt.Pos() && stmt.End() <= other.End() || stmt.Pos() <= other.Pos() && other.End() <= stmt.End() {
				nested = true
			}
		}
		if nested {
			continue
		}
		usedStmt[stmt] = true
		edits = append(edits, e...)
		done++
	}
	return edits, done, uses - done, why
}

func (nf *nfPass) short(p token.Pos) string {
	pp := nf.fset.Position(p)
	return fmt.Sprintf("%s:%d", filepath.Base(pp.Filename), pp.Line)
}

func (nf *nfPass) off(p token.Pos) int { return nf.fset.Position(p).Offset }

func (nf *nfPass) text(file string, from, to token.Pos) string {
	b := nf.src(file)
	return string(b[nf.off(from):nf.off(to)])
}

func (nf *nfPass) fileName(f *ast.File) string { return nf.fset.Position(f.Pos()).Filename }

// inlineSite returns the edits that replace the statement around one call.
func (nf *nfPass) inlineSite(cand *nfCand, s nfSite) (edits []textEdit, stmt ast.Stmt, why string) {
	file := nf.fileName(s.file)
	// nearest enclosing statement and its parent
	si := -1
	for i := len(s.stack) - 1; i >= 0; i-- {
		if _, ok := s.stack[i].(ast.Stmt); ok {
			si = i
			break
		}
		if _, ok := s.stack[i].(*ast.FuncLit); ok {
			// the statement search continues inside the literal: its body statements are on the stack below
			continue
		}
	}
	if si <= 0 {
		return nil, nil, "not inside a statement"
	}
	stmt = s.stack[si].(ast.Stmt)
	parent := s.stack[si-1]
	sig := cand.obj.Type().(*types.Signature)
	nres := sig.Results().Len()

	// wrap decides how the replacement text is put in place of target
	target := ast.Node(stmt)
	wrapBraces := false
	ifWithoutInit := ""
	switch pt := parent.(type) {
	case *ast.BlockStmt, *ast.CaseClause, *ast.CommClause:
		if cc, ok := pt.(*ast.CommClause); ok && cc.Comm == stmt {
			return nil, stmt, "communication clause"
		}
	case *ast.IfStmt:
		switch {
		case pt.Init == stmt:
			// if init; cond {..}  =>  { init'; if cond {..} }
			target = pt
			wrapBraces = true
			ifWithoutInit = "if " + nf.text(file, pt.Cond.Pos(), pt.End())
		case pt.Else == stmt:
			// else if ... : the statement is the if itself, handled through stmt being an IfStmt below
			wrapBraces = true
		default:
			return nil, stmt, "statement position not supported"
		}
	default:
		return nil, stmt, "statement position not supported"
	}
	if ifs, ok := target.(*ast.IfStmt); ok && target != ast.Node(stmt) {
		// the if statement must itself sit in a statement list or be an else branch
		switch g := s.stack[si-2].(type) {
		case *ast.BlockStmt, *ast.CaseClause, *ast.CommClause:
		case *ast.IfStmt:
			if g.Else != ast.Stmt(ifs) {
				return nil, stmt, "statement position not supported"
			}
		default:
			return nil, stmt, "statement position not supported"
		}
	}

	nf.n++
	id := nf.n
	rname := func(i int) string { return fmt.Sprintf("r%d_nf%d", i, id) }
	qual, missing := nf.qualifier(s.file)
	var resDecl []string
	var rnames []string
	for i := 0; i < nres; i++ {
		resDecl = append(resDecl, fmt.Sprintf("var %s %s", rname(i), types.TypeString(sig.Results().At(i).Type(), qual)))
		resDecl = append(resDecl, fmt.Sprintf("_ = %s", rname(i)))
		rnames = append(rnames, rname(i))
	}
	body, w := nf.inlinedBody(cand, s, id, rnames, qual)
	if w != "" {
		return nil, stmt, w
	}
	if len(*missing) > 0 {
		return nil, stmt, "the call site's file does not import " + strings.Join(*missing, ", ")
	}

	var tail string
	callText := func() (from, to token.Pos) { return s.call.Pos(), s.call.End() }
	form := ""
	switch st := stmt.(type) {
	case *ast.ExprStmt:
		if ast.Unparen(st.X) == ast.Expr(s.call) {
			form = "expr"
		}
	case *ast.AssignStmt:
		if len(st.Rhs) == 1 && ast.Unparen(st.Rhs[0]) == ast.Expr(s.call) && len(st.Lhs) == nres && (st.Tok == token.ASSIGN || st.Tok == token.DEFINE) {
			form = "assign"
			tail = nf.text(file, st.Lhs[0].Pos(), st.Lhs[len(st.Lhs)-1].End()) + " " + st.Tok.String() + " " + strings.Join(rnames, ", ")
		}
	case *ast.ReturnStmt:
		if len(st.Results) == 1 && ast.Unparen(st.Results[0]) == ast.Expr(s.call) {
			form = "return"
			tail = "return " + strings.Join(rnames, ", ")
		}
	}
	if form == "" {
		if nres != 1 {
			return nil, stmt, "a call with several results inside an expression"
		}
		if w := nf.hoistable(stmt, s); w != "" {
			return nil, stmt, w
		}
		from, to := callText()
		tail = nf.text(file, stmt.Pos(), from) + rnames[0] + nf.text(file, to, stmt.End())
	}
	if ifWithoutInit != "" {
		// the statement was the init of an if: the rest of the if follows
		tail = tail + "\n" + ifWithoutInit
	}
	var b strings.Builder
	if wrapBraces {
		b.WriteString("{\n")
	}
	for _, d := range resDecl {
		b.WriteString(d + "\n")
	}
	b.WriteString(body)
	b.WriteString("\n")
	if tail != "" {
		b.WriteString(tail + "\n")
	}
	if wrapBraces {
		b.WriteString("}")
	}
	edits = append(edits, textEdit{file, nf.off(target.Pos()), nf.off(target.End()), b.String()})
	return edits, stmtOf(target, stmt), ""
}

func stmtOf(target ast.Node, stmt ast.Stmt) ast.Stmt {
	if s, ok := target.(ast.Stmt); ok {
		return s
	}
	return stmt
}

// hoistable: the call may be evaluated before the statement without changing the order of evaluation.
func (nf *nfPass) hoistable(stmt ast.Stmt, s nfSite) string {
	var heads []ast.Node
	switch st := stmt.(type) {
	case *ast.ExprStmt:
		heads = []ast.Node{st.X}
	case *ast.AssignStmt:
		for _, e := range st.Lhs {
			heads = append(heads, e)
		}
		for _, e := range st.Rhs {
			heads = append(heads, e)
		}
	case *ast.ReturnStmt:
		for _, e := range st.Results {
			heads = append(heads, e)
		}
	case *ast.IfStmt:
		if st.Init != nil {
			return "condition of an if with an init statement"
		}
		heads = []ast.Node{st.Cond}
	case *ast.SwitchStmt:
		if st.Init != nil || st.Tag == nil {
			return "switch with an init statement"
		}
		heads = []ast.Node{st.Tag}
	case *ast.RangeStmt:
		heads = []ast.Node{st.X}
	case *ast.DeclStmt:
		heads = []ast.Node{st.Decl}
	default:
		return fmt.Sprintf("call inside a %T", stmt)
	}
	inHead := false
	for _, h := range heads {
		if h.Pos() <= s.call.Pos() && s.call.End() <= h.End() {
			inHead = true
		}
	}
	if !inHead {
		return "call outside the head of the statement"
	}
	// the path from the statement to the call
	for i := len(s.stack) - 1; i >= 0 && s.stack[i] != ast.Node(stmt); i-- {
		switch t := s.stack[i].(type) {
		case *ast.FuncLit:
			return "call inside a function literal"
		case *ast.BinaryExpr:
			if (t.Op == token.LAND || t.Op == token.LOR) && t.Y.Pos() <= s.call.Pos() && s.call.End() <= t.Y.End() {
				return "right operand of && or ||"
			}
		}
	}
	// no other call or receive before it that is not one of its ancestors
	blocked := ""
	for _, h := range heads {
		ast.Inspect(h, func(n ast.Node) bool {
			if n == nil || blocked != "" {
				return false
			}
			if _, ok := n.(*ast.FuncLit); ok {
				return false
			}
			switch t := n.(type) {
			case *ast.CallExpr:
				if t != s.call && t.Pos() < s.call.Pos() && !(t.Pos() <= s.call.Pos() && s.call.End() <= t.End()) {
					if tv, ok := nf.info.Types[t.Fun]; !ok || !tv.IsType() {
						blocked = "another call is evaluated before it in the same statement"
					}
				}
			case *ast.UnaryExpr:
				if t.Op == token.ARROW && t.Pos() < s.call.Pos() {
					blocked = "a receive is evaluated before it in the same statement"
				}
			}
			return true
		})
	}
	return blocked
}

// qualifier renders types for the call site's file; packages the file does not import are collected.
func (nf *nfPass) qualifier(f *ast.File) (types.Qualifier, *[]string) {
	names := map[string]string{} // path -> local name
	for _, im := range f.Imports {
		path, _ := strconv.Unquote(im.Path.Value)
		if im.Name != nil {
			names[path] = im.Name.Name
		} else if pn, ok := nf.info.Implicits[im].(*types.PkgName); ok {
			names[path] = pn.Name()
		}
	}
	missing := &[]string{}
	return func(p *types.Package) string {
		if p == nf.p.Types {
			return ""
		}
		if n, ok := names[p.Path()]; ok && n != "_" && n != "." {
			return n
		}
		*missing = append(*missing, p.Path())
		return p.Name()
	}, missing
}

// inlinedBody renders `{ params := args; L: switch { default: body' } }`.
func (nf *nfPass) inlinedBody(cand *nfCand, s nfSite, id int, rnames []string, qual types.Qualifier) (string, string) {
	sig := cand.obj.Type().(*types.Signature)
	file := nf.fileName(s.file)
	dfile := nf.fileName(cand.file)
	call := s.call
	if call.Ellipsis.IsValid() && !sig.Variadic() {
		return "", "ellipsis call of a non-variadic helper"
	}
	// a single multi-valued argument f(g()) is not supported
	if len(call.Args) == 1 && sig.Params().Len() > 1 {
		return "", "arguments spread from a multi-valued call"
	}
	var lhs, rhs, silence []string
	// receiver
	if recv := sig.Recv(); recv != nil {
		sel, ok := ast.Unparen(call.Fun).(*ast.SelectorExpr)
		if !ok {
			return "", "method called without a selector"
		}
		selection := nf.info.Selections[sel]
		if selection == nil || selection.Kind() != types.MethodVal {
			return "", "method expression"
		}
		x := nf.text(file, sel.X.Pos(), sel.X.End())
		xt := nf.info.TypeOf(sel.X)
		// implicit field path for promoted methods
		idx := selection.Index()
		cur := xt
		for _, fi := range idx[:len(idx)-1] {
			st := derefStruct(cur)
			if st == nil {
				return "", "promoted method through a type the rewriting cannot follow"
			}
			x = "(" + x + ")." + st.Field(fi).Name()
			cur = st.Field(fi).Type()
		}
		_, wantPtr := recv.Type().(*types.Pointer)
		_, havePtr := cur.Underlying().(*types.Pointer)
		switch {
		case wantPtr && !havePtr:
			x = "&(" + x + ")"
		case !wantPtr && havePtr:
			x = "*(" + x + ")"
		}
		name := "_"
		if len(cand.decl.Recv.List) == 1 && len(cand.decl.Recv.List[0].Names) == 1 {
			name = cand.decl.Recv.List[0].Names[0].Name
		}
		lhs = append(lhs, name)
		rhs = append(rhs, "("+types.TypeString(recv.Type(), qual)+")("+x+")")
		if name != "_" {
			silence = append(silence, name)
		}
	}
	// parameters
	np := sig.Params().Len()
	for i := 0; i < np; i++ {
		p := sig.Params().At(i)
		name := p.Name()
		if name == "" {
			name = "_"
		}
		ts := types.TypeString(p.Type(), qual)
		var arg string
		if sig.Variadic() && i == np-1 {
			switch {
			case call.Ellipsis.IsValid():
				if len(call.Args) != np {
					return "", "ellipsis call with missing arguments"
				}
				arg = nf.text(file, call.Args[i].Pos(), call.Args[i].End())
			case len(call.Args) <= i:
				arg = "nil"
			default:
				var parts []string
				for _, a := range call.Args[i:] {
					parts = append(parts, nf.text(file, a.Pos(), a.End()))
				}
				arg = ts + "{" + strings.Join(parts, ", ") + "}"
			}
		} else {
			if i >= len(call.Args) {
				return "", "argument count does not match"
			}
			arg = nf.text(file, call.Args[i].Pos(), call.Args[i].End())
		}
		lhs = append(lhs, name)
		rhs = append(rhs, "("+ts+")("+arg+")")
		if name != "_" {
			silence = append(silence, name)
		}
	}
	// free identifiers of the body must mean the same thing at the call site
	scope := nf.p.Types.Scope().Innermost(call.Pos())
	bad := ""
	ast.Inspect(cand.decl.Body, func(n ast.Node) bool {
		idn, ok := n.(*ast.Ident)
		if !ok || bad != "" {
			return bad == ""
		}
		obj := nf.info.Uses[idn]
		if obj == nil {
			return true
		}
		switch o := obj.(type) {
		case *types.PkgName:
			// the call site's file must know the package under the same name
			_, found := scope.LookupParent(idn.Name, call.Pos())
			fpn, _ := found.(*types.PkgName)
			switch {
			case found == nil:
				// the call site's file does not import the package: the import is added
				if nf.addImports == nil {
					nf.addImports = map[string]map[string]string{}
				}
				if nf.addImports[file] == nil {
					nf.addImports[file] = map[string]string{}
				}
				nf.addImports[file][o.Imported().Path()] = idn.Name
			case fpn == nil || fpn.Imported() != o.Imported():
				bad = "the body uses package " + o.Imported().Path() + " as " + idn.Name + ", which means something else at the call site"
			}
		default:
			if obj.Parent() == nf.p.Types.Scope() || obj.Parent() == types.Universe {
				_, found := scope.LookupParent(idn.Name, call.Pos())
				if found != obj {
					bad = "the body uses " + idn.Name + ", which is shadowed at the call site"
				}
			}
		}
		return true
	})
	if bad != "" {
		return "", bad
	}
	// named results
	var namedRes []string
	var resVars []string
	if cand.decl.Type.Results != nil {
		k := 0
		for _, fld := range cand.decl.Type.Results.List {
			if len(fld.Names) == 0 {
				k++
				continue
			}
			for _, nm := range fld.Names {
				ts := types.TypeString(sig.Results().At(k).Type(), qual)
				if nm.Name != "_" {
					namedRes = append(namedRes, nm.Name)
					resVars = append(resVars, fmt.Sprintf("var %s %s\n_ = %s", nm.Name, ts, nm.Name))
				} else {
					namedRes = append(namedRes, "")
				}
				k++
			}
		}
	}
	// the body text with its returns rewritten
	label := fmt.Sprintf("L_nf%d", id)
	type rep struct {
		from, to int
		text     string
	}
	var reps []rep
	nret := 0
	unlock := ""
	if d := nf.deferredUnlock(cand.decl); d != nil {
		unlock = nf.text(dfile, d.Call.Pos(), d.Call.End()) + "; "
		reps = append(reps, rep{nf.off(d.Pos()), nf.off(d.End()), ""})
	}
	var walk func(n ast.Node) bool
	walk = func(n ast.Node) bool {
		switch t := n.(type) {
		case *ast.FuncLit:
			return false
		case *ast.ReturnStmt:
			nret++
			var txt string
			switch {
			case len(rnames) == 0:
				txt = "{ " + unlock + "break " + label + " }"
			case len(t.Results) == 0:
				var vals []string
				for i := range rnames {
					if i < len(namedRes) && namedRes[i] != "" {
						vals = append(vals, namedRes[i])
					} else {
						bad = "naked return with blank results"
						return false
					}
				}
				txt = "{ " + strings.Join(rnames, ", ") + " = " + strings.Join(vals, ", ") + "; " + unlock + "break " + label + " }"
			default:
				var vals []string
				for _, e := range t.Results {
					vals = append(vals, nf.text(dfile, e.Pos(), e.End()))
				}
				txt = "{ " + strings.Join(rnames, ", ") + " = " + strings.Join(vals, ", ") + "; " + unlock + "break " + label + " }"
			}
			reps = append(reps, rep{nf.off(t.Pos()), nf.off(t.End()), txt})
			return false
		}
		return true
	}
	ast.Inspect(cand.decl.Body, walk)
	if bad != "" {
		return "", bad
	}
	// the labels of the body get a suffix of their own at every call site
	ast.Inspect(cand.decl.Body, func(n ast.Node) bool {
		switch t := n.(type) {
		case *ast.LabeledStmt:
			reps = append(reps, rep{nf.off(t.Label.Pos()), nf.off(t.Label.End()), fmt.Sprintf("%s_c%d", t.Label.Name, id)})
		case *ast.BranchStmt:
			if t.Label != nil {
				reps = append(reps, rep{nf.off(t.Label.Pos()), nf.off(t.Label.End()), fmt.Sprintf("%s_c%d", t.Label.Name, id)})
			}
		}
		return true
	})
	src := nf.src(dfile)
	lo, hi := nf.off(cand.decl.Body.Lbrace)+1, nf.off(cand.decl.Body.Rbrace)
	sort.Slice(reps, func(i, j int) bool { return reps[i].from > reps[j].from })
	body := append([]byte(nil), src[lo:hi]...)
	for _, r := range reps {
		body = append(body[:r.from-lo:r.from-lo], append([]byte(r.text), body[r.to-lo:]...)...)
	}
	var b strings.Builder
	b.WriteString("{\n")
	if len(lhs) > 0 {
		allBlank := true
		for _, l := range lhs {
			if l != "_" {
				allBlank = false
			}
		}
		op := ":="
		if allBlank {
			op = "="
		}
		b.WriteString(strings.Join(lhs, ", ") + " " + op + " " + strings.Join(rhs, ", ") + "\n")
		for _, sname := range silence {
			b.WriteString("_ = " + sname + "\n")
		}
	}
	for _, rv := range resVars {
		b.WriteString(rv + "\n")
	}
	atEnd := ""
	if unlock != "" && len(rnames) == 0 {
		atEnd = "\n" + strings.TrimSuffix(unlock, "; ")
	}
	if nret > 0 {
		b.WriteString(label + ":\nswitch {\ndefault:\n")
		b.Write(body)
		// a body that falls off its end (no results) leaves the switch the same way
		b.WriteString(atEnd + "\n}\n")
	} else {
		b.WriteString("{\n")
		b.Write(body)
		b.WriteString(atEnd + "\n}\n")
	}
	b.WriteString("}")
	return b.String(), ""
}

func derefStruct(t types.Type) *types.Struct {
	if p, ok := t.Underlying().(*types.Pointer); ok {
		t = p.Elem()
	}
	st, _ := t.Underlying().(*types.Struct)
	return st
}

func (nf *nfPass) deleteDecl(cand *nfCand) textEdit {
	from := cand.decl.Pos()
	if cand.decl.Doc != nil {
		from = cand.decl.Doc.Pos()
	}
	return textEdit{nf.fileName(cand.file), nf.off(from), nf.off(cand.decl.End()), ""}
}

func (nf *nfPass) apply(edits []textEdit, overlay map[string][]byte) error {
	byFile := map[string][]textEdit{}
	for _, e := range edits {
		byFile[e.file] = append(byFile[e.file], e)
	}
	for _, f := range nf.p.Syntax {
		file := nf.fileName(f)
		if len(byFile[file]) == 0 || len(nf.addImports[file]) == 0 {
			continue
		}
		var paths []string
		for p := range nf.addImports[file] {
			paths = append(paths, p)
		}
		sort.Strings(paths)
		txt := "\n"
		for _, p := range paths {
			name := nf.addImports[file][p]
			txt += fmt.Sprintf("import %s %q\n", name, p)
		}
		at := nf.off(f.Name.End())
		byFile[file] = append(byFile[file], textEdit{file, at, at, txt})
	}
	for file, es := range byFile {
		sort.Slice(es, func(i, j int) bool { return es[i].start > es[j].start })
		src := append([]byte(nil), nf.src(file)...)
		last := len(src) + 1
		for _, e := range es {
			if e.end > last {
				return fmt.Errorf("overlapping edits in %s", file)
			}
			last = e.start
			src = append(src[:e.start:e.start], append([]byte(e.text), src[e.end:]...)...)
		}
		out, err := format.Source(src)
		if err != nil {
			return fmt.Errorf("rewritten %s does not parse: %w", filepath.Base(file), err)
		}
		overlay[file] = out
	}
	return nil
}

var unusedImportRe = regexp.MustCompile(`^(.*\.go):(\d+):\d+: "([^"]+)" imported and not used`)

func unusedImports(repo string, overlay map[string][]byte) (map[string][]string, error) {
	fset := token.NewFileSet()
	cfg := &packages.Config{Mode: packages.LoadSyntax, Dir: repo, Env: nfEnv(), Fset: fset, Overlay: withBase(overlay)}
	pkgs, err := packages.Load(cfg, "./pkg/ggql")
	if err != nil {
		return nil, err
	}
	out := map[string][]string{}
	for _, p := range pkgs {
		for _, e := range p.Errors {
			if strings.HasPrefix(e.Error(), "-: #") {
				continue // the compiler's summary of the same errors, with the overlay's temporary file names
			}
			m := unusedImportRe.FindStringSubmatch(e.Error())
			if m == nil {
				return nil, fmt.Errorf("normal form: the rewritten package does not type-check: %s", e.Error())
			}
			out[m[1]] = append(out[m[1]], m[3])
		}
	}
	return out, nil
}

func dropImports(repo string, overlay map[string][]byte, unused map[string][]string) error {
	for file, paths := range unused {
		src, ok := overlay[file]
		if !ok {
			b, err := os.ReadFile(file)
			if err != nil {
				return err
			}
			src = b
		}
		lines := bytes.Split(src, []byte("\n"))
		var out [][]byte
		for _, ln := range lines {
			drop := false
			t := strings.TrimSpace(string(ln))
			for _, p := range paths {
				q := `"` + p + `"`
				if t == q || t == "import "+q {
					drop = true
				}
				// with a local name: `name "path"` inside a group, `import name "path"` alone
				if strings.HasSuffix(t, " "+q) {
					f := strings.Fields(t)
					if len(f) == 2 || (len(f) == 3 && f[0] == "import") {
						drop = true
					}
				}
			}
			if !drop {
				out = append(out, ln)
			}
		}
		fm, err := format.Source(bytes.Join(out, []byte("\n")))
		if err != nil {
			return err
		}
		overlay[file] = fm
	}
	return nil
}
