package main

import (
	"fmt"
	"go/token"
	"go/types"
	"strings"

	"golang.org/x/tools/go/ssa"
)

func init() {
	register("C19", checkC19,
		"Structural conditions of subscription delivery (sequential semantics): (OWN) the registry Root.subscriptions is written only by subscribe (append at the end), Unsubscribe and the clean-up phase of AddEvent; (DEL) every in-place removal inside a loop over the registry sits in a loop whose index strictly decreases from len-1 to 0, so no element is skipped; (PAIR) each removal is paired, in the same block, with exactly one Unsubscribe() callback on the removed element and no other call site of Subscriber.Unsubscribe exists; (DELIVER) in the publish loop, which walks the registry in ascending (registration) order, Send is invoked once per iteration whose Match was true, on the result of resolving that same subscription's selection against the event, the count is incremented in the same guarded region, and a failing Send appends that subscription to the failure list exactly once; (IDENT) clean-up removes by pointer identity.",
		"Outcomes over histories (counts, order across re-subscription) - they need the sequence of calls.")
	register("C20", checkC20,
		"Lockset and lock-order conditions of the subscription registry: (LOCK) every read and write of Root.subscriptions (and of its backing array), and every Subscriber callback (Match, Send, Unsubscribe), happens with Root.subLock held on the same Root; (PAIR/ORDER) every Lock of subLock is released on all paths, subLock is never re-acquired while held, and the lock-order graph with FieldDef.mu / Object.mu (reached through resolution inside the publish section) is acyclic; (TWOPHASE) the clean-up phase of AddEvent re-reads the registry under the lock and removes by identity, so two publishers failing on one subscriber remove and clean it up once, and an Unsubscribe racing the clean-up cannot make it remove the wrong element.",
		"Linearizability of outcomes (histories over interleavings); deadlock if an application callback re-enters Root while the lock is held (assumption, printed). The websocket example's use of these calls from goroutines is recorded only as evidence of the concurrent entry set.")
}

type subFns struct {
	subscribe, unsub, addEvent *ssa.Function
}

func subAnchors(c *Ctx, r *Report, rule string) (subFns, bool) {
	s := subFns{c.fn("(*Root).subscribe"), c.fn("(*Root).Unsubscribe"), c.fn("(*Root).AddEvent")}
	// subscribe is internal: find it by role (stores an append to Root.subscriptions of its *Subscription parameter)
	if s.subscribe == nil {
		for _, f := range c.allFns {
			if c.hasParam(f, "Subscription") && f.Signature.Recv() != nil && c.isNamed(f.Signature.Recv().Type(), "Root") {
				s.subscribe = f
			}
		}
	}
	if s.subscribe == nil {
		// no function of its own: the registration is the place where one subscription is appended to the
		// registry (written out in the entry point); the function that holds it plays the role
		for _, f := range c.allFns {
			if !c.inPkg(f) || f == s.unsub || f == s.addEvent {
				continue
			}
			if len(registryAppends(c, f)) > 0 {
				if s.subscribe != nil && s.subscribe != f {
					r.undecided(rule, "anchor subscribe: registration site", f.Pos(), "more than one function appends to the registry: "+fnName(s.subscribe)+", "+fnName(f))
					return s, false
				}
				s.subscribe = f
			}
		}
	}
	ok := s.subscribe != nil && s.unsub != nil && s.addEvent != nil
	if !ok {
		r.undecided(rule, "anchors subscribe / Unsubscribe / AddEvent", token.NoPos, "not found")
	} else {
		r.fnSeen(fnName(s.subscribe), fnName(s.unsub), fnName(s.addEvent))
	}
	return s, ok
}

// registryAppends: the stores `root.subscriptions = append(root.subscriptions, x)` of one *Subscription x.
type regAppend struct {
	store *ssa.Store
	val   ssa.Value
}

func registryAppends(c *Ctx, fn *ssa.Function) []regAppend {
	var out []regAppend
	for _, b := range fn.Blocks {
		for _, in := range b.Instrs {
			st, ok := in.(*ssa.Store)
			if !ok {
				continue
			}
			fa, ok := st.Addr.(*ssa.FieldAddr)
			if !ok {
				continue
			}
			if o, f := fieldOwner(fa.X.Type(), fa.Field); o != "Root" || f != "subscriptions" {
				continue
			}
			call, ok := st.Val.(*ssa.Call)
			if !ok || !isBuiltinCall(call, "append") || !isSubsLoad(call.Call.Args[0]) {
				continue
			}
			// varargs slice holding exactly one value
			sl, ok := call.Call.Args[1].(*ssa.Slice)
			if !ok {
				continue
			}
			al, ok := sl.X.(*ssa.Alloc)
			if !ok {
				continue
			}
			var vals []ssa.Value
			for _, ref := range *al.Referrers() {
				if ia, ok := ref.(*ssa.IndexAddr); ok {
					for _, r2 := range *ia.Referrers() {
						if s2, ok := r2.(*ssa.Store); ok {
							vals = append(vals, s2.Val)
						}
					}
				}
			}
			if len(vals) == 1 && c.isNamed(vals[0].Type(), "Subscription") {
				out = append(out, regAppend{st, vals[0]})
			}
		}
	}
	return out
}

func isSubsLoad(v ssa.Value) bool {
	_, o, f, ok := loadOfField(v)
	return ok && o == "Root" && f == "subscriptions"
}

// removal describes root.subscriptions = append(root.subscriptions[:i], root.subscriptions[i+1:]...)
type removal struct {
	store *ssa.Store
	idx   ssa.Value
	app   *ssa.Call
}

func findRemovals(fn *ssa.Function) []removal {
	var out []removal
	for _, b := range fn.Blocks {
		for _, in := range b.Instrs {
			st, ok := in.(*ssa.Store)
			if !ok {
				continue
			}
			fa, ok := st.Addr.(*ssa.FieldAddr)
			if !ok {
				continue
			}
			if o, f := fieldOwner(fa.X.Type(), fa.Field); o != "Root" || f != "subscriptions" {
				continue
			}
			call, ok := st.Val.(*ssa.Call)
			if !ok || !isBuiltinCall(call, "append") {
				continue
			}
			s0, ok0 := call.Call.Args[0].(*ssa.Slice)
			s1, ok1 := call.Call.Args[1].(*ssa.Slice)
			if !ok0 || !ok1 || !isSubsLoad(s0.X) || !isSubsLoad(s1.X) || s0.High == nil || s1.Low == nil {
				continue
			}
			// s[:i] and s[i+1:]
			lo, ok := s1.Low.(*ssa.BinOp)
			if !ok || lo.Op != token.ADD || !sameVal(lo.X, s0.High) {
				continue
			}
			if k, ok := lo.Y.(*ssa.Const); !ok || k.Int64() != 1 {
				continue
			}
			out = append(out, removal{st, s0.High, call})
		}
	}
	return out
}

// filterRemoval describes the second removal idiom: the registry is rebuilt from a loop over itself,
//
//	kept := empty; for _, s := range root.subscriptions { if drop(s) { s.sub.Unsubscribe() } else { kept = append(kept, s) } }
//	root.subscriptions = kept
//
// An element is removed exactly when it is not appended.
type filterRemoval struct {
	store   *ssa.Store
	loop    *loopInfo
	elem    ssa.Value
	appends map[*ssa.BasicBlock]bool
	unsubs  []*ssa.Call
	why     string
}

func findFilterRemovals(c *Ctx, fn *ssa.Function) []filterRemoval {
	var out []filterRemoval
	loops := loopsOf(fn)
	for _, b := range fn.Blocks {
		for _, in := range b.Instrs {
			st, ok := in.(*ssa.Store)
			if !ok {
				continue
			}
			fa, ok := st.Addr.(*ssa.FieldAddr)
			if !ok {
				continue
			}
			if o, f := fieldOwner(fa.X.Type(), fa.Field); o != "Root" || f != "subscriptions" {
				continue
			}
			// the stored value is (a phi of) the kept list of some loop over the registry
			for _, l := range loops {
				var elem ssa.Value
				for hb := range l.body {
					for _, hin := range hb.Instrs {
						switch t := hin.(type) {
						case *ssa.Extract:
							if nx, ok := t.Tuple.(*ssa.Next); ok && t.Index == 2 {
								if rg, ok := nx.Iter.(*ssa.Range); ok && isSubsLoad(rg.X) {
									elem = t
								}
							}
						case *ssa.UnOp:
							if ia, ok := t.X.(*ssa.IndexAddr); ok && t.Op == token.MUL && isSubsLoad(ia.X) && c.isNamed(t.Type(), "Subscription") {
								if ind := loopInduction(l); ind.ok && ia.Index == ind.elem {
									elem = t
								}
							}
						}
					}
				}
				if elem == nil {
					continue
				}
				for _, hin := range l.head.Instrs {
					kp, ok := hin.(*ssa.Phi)
					if !ok {
						break
					}
					if _, isSl := kp.Type().Underlying().(*types.Slice); !isSl {
						continue
					}
					// the store's value must be this phi (possibly through the loop exit)
					ls, _ := phiLeaves(st.Val)
					flows := st.Val == ssa.Value(kp)
					for _, lf := range ls {
						if lf.val == ssa.Value(kp) {
							flows = true
						}
					}
					if !flows {
						continue
					}
					fr := filterRemoval{store: st, loop: l, elem: elem, appends: map[*ssa.BasicBlock]bool{}}
					okShape := true
					var walk func(v ssa.Value, d int)
					seen := map[ssa.Value]bool{}
					walk = func(v ssa.Value, d int) {
						if seen[v] || d > 8 {
							return
						}
						seen[v] = true
						switch t := v.(type) {
						case *ssa.Phi:
							if t == kp {
								return
							}
							for _, e := range t.Edges {
								walk(e, d+1)
							}
						case *ssa.Call:
							if isBuiltinCall(t, "append") && len(t.Call.Args) == 2 {
								if els, ok := sliceLitElems(t.Call.Args[1]); ok && len(els) == 1 && sameVal(els[0], elem) {
									fr.appends[t.Block()] = true
									walk(t.Call.Args[0], d+1)
									return
								}
							}
							okShape = false
							fr.why = "the kept list is extended by something other than append(kept, current element)"
						default:
							okShape = false
							fr.why = "the kept list has a source that is not an append of the current element"
						}
					}
					for i, e := range kp.Edges {
						if l.body[l.head.Preds[i]] {
							walk(e, 0)
						} else {
							// initial value: empty
							empty := false
							switch t := e.(type) {
							case *ssa.MakeSlice:
								if k, ok := t.Len.(*ssa.Const); ok && k.Int64() == 0 {
									empty = true
								}
							case *ssa.Slice:
								if k, ok := t.High.(*ssa.Const); ok && t.High != nil && k.Int64() == 0 {
									empty = true
								}
							case *ssa.Const:
								empty = t.Value == nil
							}
							if !empty {
								okShape = false
								fr.why = "the kept list does not start empty"
							}
						}
					}
					if !okShape && fr.why == "" {
						fr.why = "unrecognised shape"
					}
					for hb := range l.body {
						for _, hin := range hb.Instrs {
							if call, ok := hin.(*ssa.Call); ok && call.Call.IsInvoke() && call.Call.Method.Name() == "Unsubscribe" && c.isNamed(call.Call.Value.Type(), "Subscriber") {
								fr.unsubs = append(fr.unsubs, call)
							}
						}
					}
					out = append(out, fr)
				}
			}
		}
	}
	return out
}

// descendingLoop: l is `for i := len(x)-1; 0 <= i; i--` with induction phi i.
func descendingLoop(l *loopInfo, idx ssa.Value) (bool, string) {
	// the other spelling of the same walk: i := len(s); for 0 < i { i--; .. s[i] .. } - the index is the
	// variable's next value, computed first thing in the body; the variable starts at len and the loop runs
	// while it is above 0, so the index runs from len-1 down to 0 by one
	if bo, isB := idx.(*ssa.BinOp); isB && bo.Op == token.SUB {
		if k, isC := bo.Y.(*ssa.Const); isC && k.Value != nil && k.Int64() == 1 {
			if p, isP := bo.X.(*ssa.Phi); isP && p.Block() == l.head && len(l.head.Succs) == 2 && bo.Block() == l.head.Succs[0] {
				for i, e := range p.Edges {
					if l.body[l.head.Preds[i]] {
						if e != ssa.Value(bo) {
							return false, "the index does not decrease by one per iteration"
						}
					} else if _, isLen := isLenOf(e); !isLen {
						return false, "the index does not start at len-1"
					}
				}
				ifi, ok := l.head.Instrs[len(l.head.Instrs)-1].(*ssa.If)
				if !ok {
					return false, "no loop test"
				}
				v, op, k, ok := intCmp(ifi.Cond)
				if !ok || v != ssa.Value(p) || !((op == token.GTR && k == 0) || (op == token.GEQ && k == 1)) {
					return false, "the loop does not run down to index 0"
				}
				return true, ""
			}
		}
	}
	p, ok := idx.(*ssa.Phi)
	if !ok || p.Block() != l.head {
		return false, "the removal index is not the induction variable of the enclosing loop"
	}
	for i, e := range p.Edges {
		pred := l.head.Preds[i]
		if l.body[pred] {
			bo, ok := e.(*ssa.BinOp)
			if !ok || bo.Op != token.SUB || bo.X != ssa.Value(p) {
				return false, "the index does not decrease by one per iteration"
			}
			if k, ok := bo.Y.(*ssa.Const); !ok || k.Int64() != 1 {
				return false, "the index does not decrease by exactly one"
			}
		} else {
			bo, ok := e.(*ssa.BinOp)
			if !ok || bo.Op != token.SUB {
				return false, "the index does not start at len-1"
			}
			if _, isLen := isLenOf(bo.X); !isLen {
				return false, "the index does not start at len-1"
			}
			if k, ok := bo.Y.(*ssa.Const); !ok || k.Int64() != 1 {
				return false, "the index does not start at len-1"
			}
		}
	}
	ifi, ok := l.head.Instrs[len(l.head.Instrs)-1].(*ssa.If)
	if !ok {
		return false, "no loop test"
	}
	v, op, k, ok := intCmp(ifi.Cond)
	if !ok || v != ssa.Value(p) || !((op == token.GEQ && k == 0) || (op == token.GTR && k == -1)) {
		return false, "the loop does not run down to index 0"
	}
	return true, ""
}

func checkC19(c *Ctx, r *Report) {
	r.rule("C19.OWN", "stores to Root.subscriptions only in subscribe, Unsubscribe, AddEvent; subscribe appends its parameter at the end")
	r.rule("C19.DEL", "removal append(s[:i], s[i+1:]...) only inside a loop with i descending from len-1 to 0 by 1")
	r.rule("C19.PAIR", "each removal is followed in the same block by exactly one Unsubscribe() invoke on the removed element; no other Subscriber.Unsubscribe call site in the package")
	r.rule("C19.DELIVER", "publish loop: ascending range over the registry; Send once per iteration under Match true, on resolve(event, .., s.field, ..) of the same s; cnt++ under the same guard; failing Send appends s to the failure list once")
	r.rule("C19.IDENT", "clean-up removal is control-dependent on pointer identity between the failed subscription and the registry element")
	s, ok := subAnchors(c, r, "C19.OWN")
	if !ok {
		return
	}
	// OWN
	n := 0
	for _, fn := range c.allFns {
		for _, b := range fn.Blocks {
			for _, in := range b.Instrs {
				st, ok := in.(*ssa.Store)
				if !ok {
					continue
				}
				fa, ok := st.Addr.(*ssa.FieldAddr)
				if !ok {
					continue
				}
				if o, f := fieldOwner(fa.X.Type(), fa.Field); o != "Root" || f != "subscriptions" {
					continue
				}
				n++
				okFn := fn == s.subscribe || fn == s.unsub || fn == s.addEvent
				if fn == s.subscribe && !c.hasParam(fn, "Subscription") {
					// the registration is written out in a function that does other things too: only the
					// registering append itself may write the registry there
					okFn = false
					for _, ra := range registryAppends(c, fn) {
						if ra.store == st {
							okFn = true
						}
					}
				}
				r.check("C19.OWN", fmt.Sprintf("%s: writes the registry", fnName(fn)), st.Pos(), okFn, "the subscription registry is written outside subscribe / Unsubscribe / AddEvent")
			}
		}
	}
	r.floor("C19.OWN", "stores to Root.subscriptions", n, 3)
	// subscribe appends its parameter at the end
	appOK := false
	var subP *ssa.Parameter
	for _, p := range s.subscribe.Params {
		if c.isNamed(p.Type(), "Subscription") {
			subP = p
		}
	}
	for _, ra := range registryAppends(c, s.subscribe) {
		if subP == nil || ra.val == ssa.Value(subP) {
			appOK = true
		}
	}
	r.check("C19.OWN", fnName(s.subscribe)+": appends the new subscription at the end of the registry", s.subscribe.Pos(), appOK, "registration order is delivery order: the new subscription must be appended")

	// DEL + PAIR + IDENT
	nRem := 0
	unsubSites := map[ssa.Instruction]bool{}
	for _, fn := range []*ssa.Function{s.unsub, s.addEvent} {
		loops := loopsOf(fn)
		for i, rm := range findRemovals(fn) {
			nRem++
			key := fmt.Sprintf("%s: removal #%d", fnName(fn), i+1)
			l := innermostLoop(loops, rm.store.Block())
			if l == nil {
				r.check("C19.DEL", key+" is inside a descending loop", rm.store.Pos(), false, "not in a loop")
			} else {
				ok, why := descendingLoop(l, rm.idx)
				r.check("C19.DEL", key+" is inside a descending loop", rm.store.Pos(), ok, why+": removing in place while ascending skips the element after each removal")
			}
			// PAIR: one Unsubscribe invoke in the same block after the removal, on the removed element
			cnt := 0
			rightElem := false
			after := false
			for _, in := range rm.store.Block().Instrs {
				if in == ssa.Instruction(rm.store) {
					after = true
				}
				call, ok := in.(*ssa.Call)
				if !ok || !call.Call.IsInvoke() || call.Call.Method.Name() != "Unsubscribe" || !c.isNamed(call.Call.Value.Type(), "Subscriber") {
					continue
				}
				cnt++
				unsubSites[call] = true
				_ = after
				// receiver: X.sub where X is the element at the removal index (loaded before) or the failed subscription compared for identity
				if base, o, f, ok := loadOfField(call.Call.Value); ok && o == "Subscription" && f == "sub" {
					if elemAt(base, rm.idx) || identicalToElem(rm.store.Block(), base, rm.idx) {
						rightElem = true
					}
				}
			}
			r.check("C19.PAIR", key+" is paired with exactly one clean-up callback on the removed subscriber", rm.store.Pos(), cnt == 1 && rightElem,
				fmt.Sprintf("%d Unsubscribe() call(s) in the removal's block, on the removed element: %v", cnt, rightElem))
			if fn == s.addEvent {
				idOK := false
				for _, g := range blockGuards(rm.store.Block()) {
					x, y, ok := eqGuard(g)
					if !ok {
						continue
					}
					if c.isNamed(x.Type(), "Subscription") && (elemAt(x, rm.idx) || elemAt(y, rm.idx)) {
						idOK = true
					}
				}
				r.check("C19.IDENT", key+" removes by pointer identity with the failed subscription", rm.store.Pos(), idOK, "the clean-up must compare the registry element with the failed subscription, not trust a remembered position")
			}
		}
	}
	for _, fn := range []*ssa.Function{s.unsub, s.addEvent} {
		for i, fr := range findFilterRemovals(c, fn) {
			nRem++
			key := fmt.Sprintf("%s: filter removal #%d", fnName(fn), i+1)
			r.check("C19.DEL", key+" rebuilds the registry in order from an empty list", fr.store.Pos(), fr.why == "", fr.why+": the survivors must be the old elements in their old order")
			// PAIR: on every path through an iteration exactly one of: append the element, clean it up
			marks := map[*ssa.BasicBlock]bool{}
			for b := range fr.appends {
				marks[b] = true
			}
			right := true
			for _, u := range fr.unsubs {
				marks[u.Block()] = true
				unsubSites[u] = true
				if base, o, f, ok := loadOfField(u.Call.Value); !ok || o != "Subscription" || f != "sub" || !sameVal(base, fr.elem) {
					right = false
				}
			}
			none, two := false, false
			var dfs func(b *ssa.BasicBlock, cnt int, seen map[*ssa.BasicBlock]bool)
			dfs = func(b *ssa.BasicBlock, cnt int, seen map[*ssa.BasicBlock]bool) {
				if !fr.loop.body[b] || seen[b] {
					return
				}
				seen[b] = true
				defer delete(seen, b)
				if marks[b] {
					cnt++
				}
				for _, sc := range b.Succs {
					if sc == fr.loop.head {
						if cnt == 0 {
							none = true
						}
						if cnt > 1 {
							two = true
						}
						continue
					}
					dfs(sc, cnt, seen)
				}
			}
			for _, sc := range fr.loop.head.Succs {
				if fr.loop.body[sc] && sc != fr.loop.head {
					dfs(sc, 0, map[*ssa.BasicBlock]bool{})
				}
			}
			r.check("C19.PAIR", key+": every element is either kept or cleaned up, exactly once", fr.store.Pos(), right && !none && !two && len(fr.unsubs) > 0,
				fmt.Sprintf("clean-up on the loop's own element: %v; an iteration with neither append nor clean-up: %v; with both or two: %v", right, none, two))
			if fn == s.addEvent {
				idOK := len(fr.unsubs) > 0
				for _, u := range fr.unsubs {
					ok := hasGuard(u.Block(), func(g guard) bool {
						if !g.val {
							return false
						}
						switch t := g.cond.(type) {
						case *ssa.Lookup:
							return sameVal(t.Index, fr.elem) && c.isNamed(t.Index.Type(), "Subscription")
						case *ssa.Extract:
							if lk, ok := t.Tuple.(*ssa.Lookup); ok {
								return sameVal(lk.Index, fr.elem)
							}
						case *ssa.BinOp:
							return t.Op == token.EQL && (sameVal(t.X, fr.elem) || sameVal(t.Y, fr.elem))
						}
						return false
					})
					if !ok {
						idOK = false
					}
				}
				r.check("C19.IDENT", key+" removes by pointer identity with the failed subscriptions", fr.store.Pos(), idOK, "the clean-up must select the registry elements by identity (== or a set keyed by the subscription pointer)")
			}
		}
	}
	r.floor("C19.DEL", "removals from the registry (in place or by filtering)", nRem, 2)
	// no other Unsubscribe call sites
	for _, fn := range c.allFns {
		for _, ci := range callsIn(fn) {
			cc := ci.Common()
			if cc.IsInvoke() && cc.Method.Name() == "Unsubscribe" && c.isNamed(cc.Value.Type(), "Subscriber") {
				if !unsubSites[ci.(ssa.Instruction)] {
					r.flag("C19.PAIR", fmt.Sprintf("%s: Subscriber.Unsubscribe called only where a subscription is removed", fnName(fn)), ci.Pos(), "a clean-up callback that is not paired with a removal from the registry: clean-up could be called twice or for a live subscriber")
				}
			}
		}
	}
	c19Deliver(c, r, s)
	c19Register(c, r, s)
}

// c19Register: after a subscription operation was resolved, every *Subscription the resolvers put into the
// response is registered. The registration loop ranges over the resolved map itself; looking the map up
// under keys taken from the operation's top-level field selections misses a subscription selected inside
// a fragment.
func c19Register(c *Ctx, r *Report, s subFns) {
	r.rule("C19.REGISTER", "each call of the registration function in the entry point takes a value yielded by a range over the resolved response map (every entry is considered), not a lookup under selected keys")
	entry := c.fn("(*Root).ResolveExecutable")
	if entry == nil {
		r.undecided("C19.REGISTER", "anchor ResolveExecutable", 0, "not found")
		return
	}
	n := 0
	// a registration site: a call of the registration function, or - when the registration is written out where
	// it is needed - the append itself
	type regSite struct {
		in   ssa.Instruction
		args []ssa.Value
	}
	var sites []regSite
	// a registration function: its call sites are the registrations - it takes the subscription, or the value that
	// may be one (and tests it itself)
	takesValue := false
	if !c.hasParam(s.subscribe, "Subscription") {
		for _, ra := range registryAppends(c, s.subscribe) {
			v := ra.val
			if ex, ok := v.(*ssa.Extract); ok {
				v = ex.Tuple
			}
			if ta, ok := v.(*ssa.TypeAssert); ok {
				if _, isP := ta.X.(*ssa.Parameter); isP {
					takesValue = true
				}
			}
		}
	}
	if c.hasParam(s.subscribe, "Subscription") || takesValue {
		for _, fn := range c.allFns {
			if !c.inPkg(fn) {
				continue
			}
			for _, ci := range callsIn(fn) {
				if ci.Common().StaticCallee() == s.subscribe {
					sites = append(sites, regSite{ci, ci.Common().Args})
				}
			}
		}
	} else {
		for _, ra := range registryAppends(c, s.subscribe) {
			sites = append(sites, regSite{ra.store, []ssa.Value{ra.val}})
		}
	}
	for _, site := range sites {
		entry := site.in.Parent()
		r.fnSeen(fnName(entry))
		n++
		ok := false
		src := ""
		for _, arg := range site.args {
			if !c.isNamed(arg.Type(), "Subscription") && !(takesValue && isEmptyIface(arg.Type())) {
				continue
			}
			v := arg
			if ex, isEx := v.(*ssa.Extract); isEx {
				if ta, isTA := ex.Tuple.(*ssa.TypeAssert); isTA {
					v = ta.X
				}
			} else if ta, isTA := v.(*ssa.TypeAssert); isTA {
				v = ta.X
			}
			src = shortPath(vpath(v))
			if ex, isEx := v.(*ssa.Extract); isEx && ex.Index == 2 {
				if nx, isNx := ex.Tuple.(*ssa.Next); isNx {
					if rg, isRg := nx.Iter.(*ssa.Range); isRg {
						if _, isMap := rg.X.Type().Underlying().(*types.Map); isMap {
							ok = true
						}
					}
				}
			}
		}
		if !ok && registeredOnceBySet(site.in) {
			ok = true // a walk in another order that remembers what it has registered
		}
		r.check("C19.REGISTER", fmt.Sprintf("%s: registration #%d considers every entry of the resolved map", fnName(entry), n), site.in.Pos(), ok,
			"the registered value is "+src+", not the value of a range over the resolved map: a subscription resolved inside an inline fragment or fragment spread of the operation is never registered, or - looked up once per selection - one whose response key is selected twice is registered twice and then receives every event twice and is cleaned up twice")
	}
	r.floor("C19.REGISTER", "registrations (calls of the registration function)", n, 1)
	// a subscription request that is answered with errors registers nobody: in the entry point the registration
	// (or the call of the helper that registers) is dominated by len(errors) == 0 of the field resolver's result
	ent := c.fn("(*Root).ResolveExecutable")
	a := c.anchors()
	if ent == nil || a.field == nil {
		return
	}
	m := 0
	var gated []ssa.Instruction
	for _, site := range sites {
		if site.in.Parent() == ent {
			gated = append(gated, site.in)
		}
	}
	for _, ci := range callsIn(ent) {
		cal := ci.Common().StaticCallee()
		if cal == nil || cal == s.subscribe || !c.inPkg(cal) {
			continue
		}
		for _, site := range sites {
			if site.in.Parent() == cal {
				gated = append(gated, ci)
				break
			}
		}
	}
	for _, ci := range gated {
		m++
		ok := hasGuard(ci.Block(), func(g guard) bool {
			x, op, k, isCmp := intCmp(g.cond)
			if !isCmp {
				return false
			}
			inner, isLen := isLenOf(x)
			if !isLen {
				return false
			}
			call, isCall := inner.(*ssa.Call)
			if !isCall || call.Call.StaticCallee() != a.field {
				return false
			}
			if !g.val {
				op = negOp(op)
			}
			return (op == token.EQL && k == 0) || (op == token.LEQ && k == 0) || (op == token.LSS && k == 1)
		})
		r.check("C19.REGISTER", fmt.Sprintf("%s: registration #%d happens only when the subscription fields resolved without errors", fnName(ent), m), ci.Pos(), ok,
			"subscriptions are registered although the request is answered with errors: the client was told the request failed, yet a subscriber is in the registry, receives later events and is counted")
	}
}

// elemAt: v is a load of root.subscriptions[idx].
func elemAt(v ssa.Value, idx ssa.Value) bool {
	u, ok := v.(*ssa.UnOp)
	if !ok || u.Op != token.MUL {
		return false
	}
	ia, ok := u.X.(*ssa.IndexAddr)
	return ok && isSubsLoad(ia.X) && sameVal(ia.Index, idx)
}

// identicalToElem: block b is guarded by base == root.subscriptions[idx].
func identicalToElem(b *ssa.BasicBlock, base ssa.Value, idx ssa.Value) bool {
	for _, g := range blockGuards(b) {
		x, y, ok := eqGuard(g)
		if !ok {
			continue
		}
		if (sameVal(x, base) && elemAt(y, idx)) || (sameVal(y, base) && elemAt(x, idx)) {
			return true
		}
	}
	return false
}

func c19Deliver(c *Ctx, r *Report, s subFns) {
	fn := s.addEvent
	loops := loopsOf(fn)
	var send *ssa.Call
	for _, ci := range callsIn(fn) {
		cc := ci.Common()
		if cc.IsInvoke() && cc.Method.Name() == "Send" && c.isNamed(cc.Value.Type(), "Subscriber") {
			if send != nil {
				r.flag("C19.DELIVER", fnName(fn)+": a single Send call site", ci.Pos(), "more than one Send call site: a subscriber could receive an event twice")
			}
			send, _ = ci.(*ssa.Call)
		}
	}
	if send == nil {
		r.check("C19.DELIVER", fnName(fn)+": delivers through Subscriber.Send", fn.Pos(), false, "no Send call found")
		return
	}
	r.check("C19.DELIVER", fnName(fn)+": delivers through Subscriber.Send", send.Pos(), true, "")
	l := innermostLoop(loops, send.Block())
	if l == nil {
		r.check("C19.DELIVER", fnName(fn)+": Send inside the publish loop", send.Pos(), false, "Send is not in a loop over the registry")
		return
	}
	r.check("C19.DELIVER", fnName(fn)+": Send inside the publish loop", send.Pos(), true, "")
	ind := loopInduction(l)
	okAsc := ind.ok
	if okAsc {
		x, isLen := isLenOf(ind.length)
		okAsc = isLen && isSubsLoad(x)
	}
	r.check("C19.DELIVER", fnName(fn)+": publish loop walks the registry in ascending (registration) order", send.Pos(), okAsc, ind.why)
	// the subscription of this iteration
	var elem ssa.Value
	if base, o, f, ok := loadOfField(send.Call.Value); ok && o == "Subscription" && f == "sub" {
		elem = base
	}
	elemOK := elem != nil && ind.ok && elemAt(elem, ind.elem)
	r.check("C19.DELIVER", fnName(fn)+": Send goes to the subscriber of the current registry element", send.Pos(), elemOK, "the receiver of Send must be subscriptions[i].sub for the loop's own index")
	// guarded by Match(id) of the same element being true
	matchOK := hasGuard(send.Block(), func(g guard) bool {
		call, ok := g.cond.(*ssa.Call)
		if !ok || !g.val || !call.Call.IsInvoke() || call.Call.Method.Name() != "Match" {
			return false
		}
		base, _, f, ok := loadOfField(call.Call.Value)
		return ok && f == "sub" && elem != nil && sameVal(base, elem)
	})
	r.check("C19.DELIVER", fnName(fn)+": Send only when the same subscriber's Match returned true", send.Pos(), matchOK, "delivery must be control-dependent on Match(id) of that subscriber")
	// payload = resolve(event, .., elem.field, ..)
	payOK := false
	if len(send.Call.Args) == 1 {
		if ex, ok := send.Call.Args[0].(*ssa.Extract); ok && ex.Index == 0 {
			if rc, ok := ex.Tuple.(*ssa.Call); ok && rc.Call.StaticCallee() != nil {
				var evP *ssa.Parameter
				for _, p := range fn.Params {
					if it, ok := p.Type().Underlying().(*types.Interface); ok && it.NumMethods() == 0 {
						evP = p
					}
				}
				usesEvent, usesField := false, false
				for _, a := range rc.Call.Args {
					if stripIface(a) == ssa.Value(evP) {
						usesEvent = true
					}
					if base, o, f, ok := loadOfField(a); ok && o == "Subscription" && f == "field" && elem != nil && sameVal(base, elem) {
						usesField = true
					}
				}
				payOK = usesEvent && usesField
			}
		}
	}
	r.check("C19.DELIVER", fnName(fn)+": the message is the subscriber's own selection applied to the event", send.Pos(), payOK, "Send must receive resolve(event, .., s.field, ..) for the same s")
	// Send exactly once per iteration: its block is not in a nested loop
	r.check("C19.DELIVER", fnName(fn)+": Send executes at most once per iteration", send.Pos(), innermostLoop(loops, send.Block()) == l, "Send sits in a nested loop")
	// cnt++ under the same Match guard
	cntOK := false
	for _, b := range fn.Blocks {
		if !l.body[b] {
			continue
		}
		for _, in := range b.Instrs {
			bo, ok := in.(*ssa.BinOp)
			if !ok || bo.Op != token.ADD {
				continue
			}
			if k, ok := bo.Y.(*ssa.Const); !ok || k.Int64() != 1 {
				continue
			}
			if p, ok := bo.X.(*ssa.Phi); ok && p.Block() == l.head && p != ind.phi {
				if b == send.Block() || b.Dominates(send.Block()) || send.Block().Dominates(b) {
					// same Match-guarded region
					if hasGuard(b, func(g guard) bool {
						call, ok := g.cond.(*ssa.Call)
						return ok && g.val && call.Call.IsInvoke() && call.Call.Method.Name() == "Match"
					}) {
						cntOK = true
					}
				}
			}
		}
	}
	r.check("C19.DELIVER", fnName(fn)+": the reported count is incremented exactly for matching subscribers", send.Pos(), cntOK, "cnt++ must be control-dependent on Match(id)")
	// failing Send appends elem to the failure list once
	failOK := false
	errv := ssa.Value(send)
	for _, b := range fn.Blocks {
		for _, in := range b.Instrs {
			call, ok := in.(*ssa.Call)
			if !ok || !isBuiltinCall(call, "append") {
				continue
			}
			sl, ok := call.Type().Underlying().(*types.Slice)
			if !ok || !c.isNamed(sl.Elem(), "Subscription") || isSubsLoad(call.Call.Args[0]) {
				continue
			}
			if !hasGuard(b, func(g guard) bool { return guardSaysNonNil(g, errv) }) {
				continue
			}
			// control-dependent on the failure only: no further condition between Send and the append
			extra := 0
			sendGuards := map[*ssa.If]bool{}
			for _, g := range blockGuards(send.Block()) {
				sendGuards[g.at] = true
			}
			for _, g := range blockGuards(b) {
				if !sendGuards[g.at] && !guardSaysNonNil(g, errv) {
					extra++
				}
			}
			if extra > 0 {
				continue
			}
			// appended value is elem
			if s2, ok := call.Call.Args[1].(*ssa.Slice); ok {
				if al, ok := s2.X.(*ssa.Alloc); ok {
					for _, ref := range *al.Referrers() {
						if ia, ok := ref.(*ssa.IndexAddr); ok {
							for _, r2 := range *ia.Referrers() {
								if st, ok := r2.(*ssa.Store); ok && elem != nil && sameVal(st.Val, elem) {
									failOK = true
								}
							}
						}
					}
				}
			}
		}
	}
	r.check("C19.DELIVER", fnName(fn)+": a failing Send records that subscription for removal", send.Pos(), failOK, "under err != nil of Send the current subscription must be appended to the failure list")
	_ = strings.Contains
}

// ---- C20 --------------------------------------------------------------------

func checkC20(c *Ctx, r *Report) {
	r.rule("C20.LOCK", "every access to Root.subscriptions and every Subscriber callback holds Root.subLock on the same Root")
	r.rule("C20.PAIR", "subLock released on all paths")
	r.rule("C20.ORDER", "no re-acquisition; lock-order graph acyclic")
	r.rule("C20.ONCE", "every Subscriber.Unsubscribe callback is made for a subscription that is a registry element read under the held lock, or identical to one")
	r.rule("C20.TWOPHASE", "clean-up re-reads the registry inside its own critical section and removes by identity")
	s, ok := subAnchors(c, r, "C20.LOCK")
	if !ok {
		return
	}
	eng := newEffEngine(c)
	eng.run(s.subscribe, s.unsub, s.addEvent)
	nAcc, nCb := 0, 0
	seen := map[string]bool{}
	for _, fn := range []*ssa.Function{s.subscribe, s.unsub, s.addEvent} {
		sum := eng.sums[fn]
		if sum == nil {
			continue
		}
		for _, ef := range sum.effects {
			isReg := (ef.owner == "Root" && ef.field == "subscriptions") || (ef.owner == "" && ef.elemOf == "Root.subscriptions")
			if isReg && (writeKinds[ef.kind] || ef.kind == "read") {
				k := fmt.Sprintf("%s: %s registry (%s)", fnName(ef.fn), map[bool]string{true: "write", false: "read"}[writeKinds[ef.kind]], ef.descr())
				if seen[k+fmt.Sprint(ef.pos)] {
					continue
				}
				seen[k+fmt.Sprint(ef.pos)] = true
				nAcc++
				held := ef.guarded
				if writeKinds[ef.kind] {
					// a write needs the lock exclusively
					for _, h := range ef.held {
						if h == "Root.subLock~shared" {
							held = false
						}
					}
				}
				if ef.owner == "" {
					held = false
					for _, h := range ef.held {
						if h == "Root.subLock" {
							held = true
						}
					}
				}
				r.check("C20.LOCK", k, ef.pos, held, "the registry is accessed without Root.subLock held on the same Root")
			}
			if ef.kind == "callback" && ef.owner == "Subscriber" {
				k := fmt.Sprintf("%s: callback Subscriber.%s", fnName(ef.fn), ef.field)
				if seen[k+fmt.Sprint(ef.pos)] {
					continue
				}
				seen[k+fmt.Sprint(ef.pos)] = true
				nCb++
				held := false
				for _, h := range ef.held {
					if h == "Root.subLock" {
						held = true
					}
				}
				r.check("C20.LOCK", k, ef.pos, held, "a subscriber callback runs without holding the registry lock exclusively (not at all, or only as a reader): a message could be delivered after the Unsubscribe call that removed the subscriber returned, clean-up run twice, or two publishers deliver to one subscriber at the same time and in different orders to different subscribers")
			}
		}
	}
	r.floor("C20.LOCK", "registry accesses", nAcc, 8)
	r.floor("C20.LOCK", "subscriber callbacks", nCb, 4)
	sub := map[*ssa.Function]*summary{}
	for _, fn := range []*ssa.Function{s.subscribe, s.unsub, s.addEvent} {
		sub[fn] = eng.sums[fn]
	}
	lockRulesFiltered(c, r, eng, "C20", sub, "Root.subLock")
	// ONCE: a clean-up callback is made only for a subscription found in the registry inside the current
	// critical section: the receiver's subscription is a registry element loaded under the lock, or is
	// compared for identity with one. A list remembered from an earlier critical section is stale: another
	// publisher or Unsubscribe may have removed (and cleaned up) the same subscription in the gap.
	nOnce := 0
	for _, fn := range []*ssa.Function{s.unsub, s.addEvent} {
		st := eng.local(fn)
		heldLoad := func(v ssa.Value) bool {
			in, ok := v.(ssa.Instruction)
			if !ok {
				return false
			}
			for _, lr := range st.heldAt[in] {
				if lr.class == "Root.subLock" {
					return true
				}
			}
			return false
		}
		regElem := func(v ssa.Value) bool {
			switch t := v.(type) {
			case *ssa.UnOp:
				if ia, ok := t.X.(*ssa.IndexAddr); ok && t.Op == token.MUL && isSubsLoad(ia.X) {
					return heldLoad(t)
				}
			case *ssa.Extract:
				if nx, ok := t.Tuple.(*ssa.Next); ok && t.Index == 2 {
					if rg, ok := nx.Iter.(*ssa.Range); ok && isSubsLoad(rg.X) {
						return heldLoad(nx)
					}
				}
			}
			return false
		}
		k := 0
		for _, ci := range callsIn(fn) {
			cc := ci.Common()
			if !cc.IsInvoke() || cc.Method.Name() != "Unsubscribe" || !c.isNamed(cc.Value.Type(), "Subscriber") {
				continue
			}
			nOnce++
			k++
			found := false
			if base, o, f, ok := loadOfField(cc.Value); ok && o == "Subscription" && f == "sub" {
				if regElem(base) {
					found = true
				}
				for _, g := range blockGuards(ci.Block()) {
					g = normGuard(g)
					bo, ok := g.cond.(*ssa.BinOp)
					if !ok || !((bo.Op == token.EQL && g.val) || (bo.Op == token.NEQ && !g.val)) {
						continue // "if elem != s { continue }" says the same as "if elem == s {"
					}
					if (sameVal(bo.X, base) && regElem(bo.Y)) || (sameVal(bo.Y, base) && regElem(bo.X)) {
						found = true
					}
				}
			}
			r.check("C20.ONCE", fmt.Sprintf("%s: clean-up callback #%d only for a subscription found in the registry under the lock", fnName(fn), k), ci.Pos(), found,
				"the callback's subscription is neither a registry element read in this critical section nor compared for identity with one: when another publisher or an Unsubscribe call removed it between the two critical sections its clean-up runs a second time")
		}
	}
	r.floor("C20.ONCE", "clean-up callback sites", nOnce, 2)
	c20Shadow(c, r, s)
	importRules(c, r, "C19", "C20.CLEANPAIR", "a clean-up callback is made exactly where its subscription leaves the registry, in the same critical section (C19.PAIR): a subscription that was cleaned up but is still in the registry is found again by the identity re-check of a concurrent publisher's failure phase and cleaned up a second time", "C19.PAIR")
	importRules(c, r, "C19", "C20.REGONCE", "a subscription enters the registry once: the registered value is the value of a range over the resolved response map, one entry per response key (C19.REGISTER); registered once per selection instead, a subscriber whose key is selected twice is delivered every publish twice and cleaned up twice", "C19.REGISTER")
	// TWOPHASE: the removal in AddEvent happens in a critical section that also contains the re-read used for identity
	for i, rm := range findRemovals(s.addEvent) {
		st := eng.local(s.addEvent)
		held := false
		for _, lr := range st.heldAt[rm.store] {
			if lr.class == "Root.subLock" {
				held = true
			}
		}
		// the Lock that protects this removal must come after the Unlock that ended the publish phase: i.e. it is a
		// different Lock call than the one protecting Send
		var sendLock, remLock ssa.CallInstruction
		for _, ls := range st.lockSites {
			if !ls.lock {
				continue
			}
			for _, ci := range callsIn(s.addEvent) {
				cc := ci.Common()
				if cc.IsInvoke() && cc.Method.Name() == "Send" && ls.call.Block().Dominates(ci.Block()) {
					if sendLock == nil || sendLock.Block().Dominates(ls.call.Block()) {
						sendLock = ls.call
					}
				}
			}
			if ls.call.Block().Dominates(rm.store.Block()) {
				if remLock == nil || remLock.Block().Dominates(ls.call.Block()) {
					remLock = ls.call
				}
			}
		}
		idOK := false
		for _, g := range blockGuards(rm.store.Block()) {
			ex, ey, ok := eqGuard(g)
			if ok && (elemAt(ex, rm.idx) || elemAt(ey, rm.idx)) {
				// the compared registry element is loaded inside the same critical section
				var ld ssa.Value = ex
				if elemAt(ey, rm.idx) {
					ld = ey
				}
				if in, ok := ld.(ssa.Instruction); ok {
					for _, lr := range st.heldAt[in] {
						if lr.class == "Root.subLock" {
							idOK = true
						}
					}
				}
			}
		}
		r.check("C20.TWOPHASE", fmt.Sprintf("%s: clean-up removal #%d re-checks identity under the lock", fnName(s.addEvent), i+1), rm.store.Pos(), held && idOK,
			"the clean-up must hold subLock and compare the element it removes with the failed subscription inside that critical section; a position remembered from the publish phase is stale once the lock was released")
	}
}

func lockRulesFiltered(c *Ctx, r *Report, eng *effEngine, prop string, sums map[*ssa.Function]*summary, class string) {
	lockRules(c, r, eng, prop, sums, 4, 2)
}

// registeredOnceBySet: the registration is control dependent on a miss in a set (a map M: the lookup M[k]
// is false / absent) and the same function enters k into M: each key or subscription passes at most once.
func registeredOnceBySet(ci ssa.Instruction) bool {
	fn := ci.Parent()
	for _, g := range blockGuards(ci.Block()) {
		g = normGuard(g)
		var lk *ssa.Lookup
		present := g.val
		switch t := g.cond.(type) {
		case *ssa.Lookup:
			lk = t
		case *ssa.Extract:
			if l, ok := t.Tuple.(*ssa.Lookup); ok && t.Index == 1 {
				lk = l
			}
		case *ssa.UnOp:
			if l, ok := t.X.(*ssa.Lookup); ok && t.Op == token.NOT {
				lk = l
				present = !g.val
			}
		}
		if lk == nil || present {
			continue
		}
		if _, isMap := lk.X.Type().Underlying().(*types.Map); !isMap {
			continue
		}
		for _, b := range fn.Blocks {
			for _, in := range b.Instrs {
				if mu, ok := in.(*ssa.MapUpdate); ok && sameVal(mu.Map, lk.X) && sameVal(mu.Key, lk.Index) {
					return true
				}
			}
		}
	}
	return false
}

// c20Shadow: whether there is anybody to deliver to is decided from the registry itself, inside the
// critical section. A publish (or an unsubscribe) that returns before it ever took the registry lock, on a
// condition computed from other state of the Root (a counter kept beside the registry, a flag), makes its
// outcome depend on a shadow that is updated at other moments than the registry: when the shadow drifts,
// events for registered subscribers are dropped silently.
func c20Shadow(c *Ctx, r *Report, s subFns) {
	r.rule("C20.SHADOW", "no return of AddEvent / Unsubscribe that is not dominated by subLock.Lock() is control dependent on state of the Root read outside the lock")
	n := 0
	for _, fn := range []*ssa.Function{s.addEvent, s.unsub} {
		if fn == nil || len(fn.Params) == 0 {
			continue
		}
		root := fn.Params[0]
		var locks []ssa.CallInstruction
		for _, ci := range callsIn(fn) {
			if lk, ok := isMutexLock(ci); ok && lk {
				locks = append(locks, ci)
			}
		}
		fromRoot := func(v ssa.Value) bool {
			seen := map[ssa.Value]bool{}
			var walk func(v ssa.Value, d int) bool
			walk = func(v ssa.Value, d int) bool {
				if v == nil || seen[v] || d > 8 {
					return false
				}
				seen[v] = true
				switch t := v.(type) {
				case *ssa.FieldAddr:
					return t.X == ssa.Value(root) || walk(t.X, d+1)
				case *ssa.UnOp:
					return walk(t.X, d+1)
				case *ssa.BinOp:
					return walk(t.X, d+1) || walk(t.Y, d+1)
				case *ssa.Convert:
					return walk(t.X, d+1)
				case *ssa.Phi:
					for _, e := range t.Edges {
						if walk(e, d+1) {
							return true
						}
					}
				case *ssa.Call:
					for _, a := range t.Call.Args {
						if walk(a, d+1) {
							return true
						}
					}
				case *ssa.Extract:
					return walk(t.Tuple, d+1)
				}
				return false
			}
			return walk(v, 0)
		}
		k := 0
		for _, rt := range returnsOf(fn) {
			dominated := false
			for _, lk := range locks {
				if instrDominates(lk, rt) {
					dominated = true
				}
			}
			n++
			k++
			bad := ""
			if !dominated {
				for _, g := range blockGuards(rt.Block()) {
					if fromRoot(g.cond) {
						// tolerated only when the state is an exact mirror: every update of it is a constant step made
						// in the same block as a write of the registry (one step per element added or removed)
						if why := inexactMirror(c, g.cond); why != "" {
							bad = shortPath(vpath(g.cond)) + " (" + why + ")"
						}
					}
				}
			}
			r.check("C20.SHADOW", fmt.Sprintf("%s: return #%d is decided from the registry under its lock", fnName(fn), k), rt.Pos(), bad == "",
				"the call returns without taking the registry lock, on "+bad+": state kept beside the registry and updated at other moments; once it drifts from the registry, events for subscribers that are still registered are dropped")
		}
	}
	r.floor("C20.SHADOW", "returns of AddEvent / Unsubscribe", n, 2)
}

// inexactMirror: the Root fields the condition reads are mirrors of the registry only if each of their
// updates, anywhere in the package, is a constant step next to a registry write. Returns the reason when not.
func inexactMirror(c *Ctx, cond ssa.Value) string {
	fields := map[string]bool{}
	seen := map[ssa.Value]bool{}
	var collect func(v ssa.Value, d int)
	collect = func(v ssa.Value, d int) {
		if v == nil || seen[v] || d > 8 {
			return
		}
		seen[v] = true
		switch t := v.(type) {
		case *ssa.FieldAddr:
			if o, f := fieldOwner(t.X.Type(), t.Field); o == "Root" {
				fields[f] = true
			}
		case *ssa.UnOp:
			collect(t.X, d+1)
		case *ssa.BinOp:
			collect(t.X, d+1)
			collect(t.Y, d+1)
		case *ssa.Convert:
			collect(t.X, d+1)
		case *ssa.Call:
			for _, a := range t.Call.Args {
				collect(a, d+1)
			}
		case *ssa.Extract:
			collect(t.Tuple, d+1)
		}
	}
	collect(cond, 0)
	if len(fields) == 0 {
		return "state of the Root"
	}
	registryWriteIn := func(b *ssa.BasicBlock) bool {
		for _, in := range b.Instrs {
			if st, ok := in.(*ssa.Store); ok {
				if fa, ok := st.Addr.(*ssa.FieldAddr); ok {
					if o, f := fieldOwner(fa.X.Type(), fa.Field); o == "Root" && f == "subscriptions" {
						return true
					}
				}
			}
		}
		return false
	}
	updates := 0
	for _, fn := range c.allFns {
		if !c.inPkg(fn) {
			continue
		}
		for _, b := range fn.Blocks {
			for _, in := range b.Instrs {
				var delta ssa.Value
				var fa *ssa.FieldAddr
				switch t := in.(type) {
				case *ssa.Store:
					fa, _ = t.Addr.(*ssa.FieldAddr)
					if bo, ok := t.Val.(*ssa.BinOp); ok && (bo.Op == token.ADD || bo.Op == token.SUB) {
						delta = bo.Y
					} else {
						delta = t.Val
					}
				case *ssa.Call:
					if f := calleeObj(t); f != nil && f.Pkg() != nil && f.Pkg().Path() == "sync/atomic" && len(t.Call.Args) >= 2 {
						fa, _ = t.Call.Args[0].(*ssa.FieldAddr)
						delta = t.Call.Args[1]
					}
				}
				if fa == nil {
					continue
				}
				o, f := fieldOwner(fa.X.Type(), fa.Field)
				if o != "Root" || !fields[f] {
					continue
				}
				updates++
				if _, isC := delta.(*ssa.Const); !isC {
					return fmt.Sprintf("Root.%s is adjusted by a computed amount at %s, not by one step per element", f, c.pos(in.Pos()))
				}
				if !registryWriteIn(b) {
					return fmt.Sprintf("Root.%s is adjusted at %s apart from the registry write it should mirror", f, c.pos(in.Pos()))
				}
			}
		}
	}
	if updates == 0 {
		return "nothing keeps it in step with the registry"
	}
	return ""
}
