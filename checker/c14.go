package main

import (
	"fmt"
	"go/token"
	"sort"
	"strings"

	"golang.org/x/tools/go/ssa"
)

func init() {
	register("C14", checkC14,
		"Effect analysis of the load transaction (ParseReader and AddTypes, incl. everything they reach: scanner, addTypes, addExtends, ReplaceRefs, assureSchema, validate): (W1) every field of Root written by any function inside the transaction is saved before the first transaction call and restored in a block that is control-dependent exactly on err != nil, on the only path to the return; (W2) no other write inside the transaction lands in an object that existed before the call (reachable from the type tables, the schema or a pre-existing type) unless it is a reference replacement (control-dependent on the overwritten value being a *Ref placeholder, which accepted schemas do not contain) or one of the reviewed idempotent normalisations; writes into the table containers themselves are attributed to the duplicated tables because (W3) the tables are replaced by duplicates before the first transaction call and dup allocates a new list and a new map and copies element-wise.",
		"Equality of the printed schema / introspection / responses before and after a failed load (values); reader faults are covered only as 'every error return restores'. The analysis is flow-insensitive about which object a table element is (old or created by this call), which is why W2 reports every non-exempt write into table elements.")
}

func checkC14(c *Ctx, r *Report) {
	r.rule("C14.W1", "Root fields written in the transaction ⊆ fields restored under err != nil; saved before the first call; the restore test dominates every return")
	r.rule("C14.W2", "writes to pre-existing schema objects inside the transaction are reference replacements or reviewed idempotent normalisations")
	r.rule("C14.W3", "tables are replaced by dup() of the saved tables before the first transaction call; dup allocates list and map afresh")
	var entries []*ssa.Function
	for _, n := range []string{"(*Root).ParseReader", "(*Root).AddTypes"} {
		if f := c.fn(n); f != nil {
			entries = append(entries, f)
		}
	}
	if len(entries) != 2 {
		r.undecided("C14.W1", "anchors ParseReader / AddTypes", token.NoPos, "not found")
		return
	}
	eng := newEffEngine(c)
	eng.run(entries...)
	var fns []string
	for f := range eng.sums {
		fns = append(fns, fnName(f))
	}
	r.fnSeen(fns...)
	idem := map[string]string{
		"ArgValue.Value": "directive-use argument replaced by its coerced value (validateDirUse): coercing an already coerced value yields the same value",
		"Arg.Default":    "directive argument default replaced by its coerced value (Directive.Validate): idempotent",
	}
	r.Tables["idempotent_normalisations"] = idem
	for _, en := range entries {
		c14Txn(c, r, eng, en, idem)
	}
	c14Dup(c, r)
	c14ExtOrder(c, r)
	c14OneLoad(c, r)
}

type txnShape struct {
	saved    map[string]ssa.Value // Root field -> saved load
	restored map[string]bool
	firstTxn ssa.Instruction
	errTest  *ssa.If
}

func c14Txn(c *Ctx, r *Report, eng *effEngine, fn *ssa.Function, idem map[string]string) {
	recv := fn.Params[0]
	sh := txnShape{saved: map[string]ssa.Value{}, restored: map[string]bool{}}
	// transaction calls: every in-package call except the initial init-once call
	var calls []ssa.CallInstruction
	for _, ci := range callsIn(fn) {
		cal := ci.Common().StaticCallee()
		if cal == nil || !c.inPkg(cal) {
			continue
		}
		if isInitOnce(cal) || cal.Name() == "dup" {
			continue
		}
		calls = append(calls, ci)
	}
	// saved loads: loads of recv.F that are executed before every transaction call
	beforeTxn := func(in ssa.Instruction) bool {
		for _, ci := range calls {
			if !instrDominates(in, ci.(ssa.Instruction)) {
				return false
			}
		}
		return true
	}
	for _, b := range fn.DomPreorder() {
		for _, in := range b.Instrs {
			if u, ok := in.(*ssa.UnOp); ok && u.Op == token.MUL && beforeTxn(u) {
				if base, o, f, ok := loadOfField(u); ok && o == "Root" && base == ssa.Value(recv) {
					if _, dup := sh.saved[f]; !dup {
						sh.saved[f] = u
					}
				}
			}
		}
	}
	// restores: stores of a saved load into the same field, in a block guarded exactly by err != nil
	for _, b := range fn.Blocks {
		for _, in := range b.Instrs {
			st, ok := in.(*ssa.Store)
			if !ok {
				continue
			}
			fa, ok := st.Addr.(*ssa.FieldAddr)
			if !ok || fa.X != ssa.Value(recv) {
				continue
			}
			o, f := fieldOwner(fa.X.Type(), fa.Field)
			if o != "Root" || sh.saved[f] == nil || resolveLocal(st.Val) != sh.saved[f] {
				continue
			}
			gs := blockGuards(b)
			if len(gs) != 1 {
				r.check("C14.W1", fmt.Sprintf("%s: restore of Root.%s depends only on the error", fnName(fn), f), st.Pos(), false, fmt.Sprintf("the restore is control-dependent on %d conditions; it must depend on err != nil alone", len(gs)))
				continue
			}
			g := normGuard(gs[0])
			v, eq, ok := nilCmp(g.cond)
			if !ok || eq == g.val || !isErrorType(v.Type()) {
				r.check("C14.W1", fmt.Sprintf("%s: restore of Root.%s depends only on the error", fnName(fn), f), st.Pos(), false, "the restore is not guarded by err != nil")
				continue
			}
			sh.restored[f] = true
			sh.errTest = gs[0].at
			// the tested error must merge the results of all transaction calls that return an error
			srcs := map[ssa.Value]bool{}
			ls, _ := phiLeaves(v)
			for _, l := range ls {
				srcs[l.val] = true
				if ex, ok := l.val.(*ssa.Extract); ok {
					srcs[ex.Tuple] = true
				}
			}
			for _, ci := range calls {
				call, ok := ci.(*ssa.Call)
				if !ok {
					continue
				}
				retErr := false
				res := call.Call.Signature().Results()
				for i := 0; i < res.Len(); i++ {
					if isErrorType(res.At(i).Type()) {
						retErr = true
					}
				}
				if retErr && !srcs[call] {
					r.check("C14.W1", fmt.Sprintf("%s: the error of %s reaches the restore test", fnName(fn), fnName(call.Call.StaticCallee())), call.Pos(), false, "an error returned inside the transaction does not flow into the error that triggers the restore")
				}
			}
		}
	}
	// every return is dominated by the restore test
	if sh.errTest != nil {
		for _, rt := range returnsOf(fn) {
			r.check("C14.W1", fmt.Sprintf("%s: the restore test dominates the return", fnName(fn)), rt.Pos(), sh.errTest.Block().Dominates(rt.Block()), "a return is reachable without passing the restore test")
		}
	}
	// saved before the first transaction call
	for f, ld := range sh.saved {
		if !sh.restored[f] {
			continue
		}
		okOrder := beforeTxn(ld.(ssa.Instruction))
		r.check("C14.W1", fmt.Sprintf("%s: Root.%s is saved before the first transaction call", fnName(fn), f), valPos(ld), okOrder, "the saved copy is taken after the transaction has started")
	}
	// fields of Root written inside the transaction
	s := eng.sums[fn]
	written := map[string]effect{}
	type agg struct {
		ef    effect
		paths map[string]bool
	}
	w2 := map[string]*agg{}
	nW2 := 0
	for _, ef := range s.effects {
		if !writeKinds[ef.kind] || ef.initOnly {
			continue
		}
		if ef.target.kind != rParam || ef.target.idx != 0 {
			if ef.target.kind == rGlobal {
				k := fmt.Sprintf("%s: %s writes package variable %s", fnName(fn), fnName(ef.fn), ef.target.name)
				r.flag("C14.W2", k, ef.pos, "package-level state written during a load is not restored")
			}
			continue
		}
		sl := ef.target.selList()
		if len(sl) == 1 && ownerOfSel(sl[0]) == "Root" {
			written[strings.TrimPrefix(sl[0], "Root.")] = ef
			continue
		}
		if !isSchemaWrite(ef) && ef.owner != "ArgValue" && ef.owner != "DirectiveUse" {
			continue
		}
		// table containers of the duplicated tables
		if len(sl) >= 2 && (sl[0] == "Root.types" || sl[0] == "Root.dirs") {
			if (ef.owner == "typeList" && len(sl) == 2) || (ef.owner == "" && len(sl) == 3 && ownerOfSel(sl[1]) == "typeList") {
				continue // W3
			}
		}
		nW2++
		if ef.refOnly {
			continue
		}
		if _, ok := idem[ef.owner+"."+ef.field]; ok {
			continue
		}
		via := "(direct)"
		if len(ef.chain) > 0 {
			via = ef.chain[0]
		}
		k := fmt.Sprintf("%s via %s: %s %s", fnName(fn), via, fnName(ef.fn), ef.descr())
		if len(ef.chain) > 1 {
			// one construct per (transaction step, method it dispatches to): e.g. addExtends -> (*Object).Extend
			k = fmt.Sprintf("%s via %s -> %s: modifies a pre-existing object in place", fnName(fn), ef.chain[0], ef.chain[1])
		}
		a := w2[k]
		if a == nil {
			a = &agg{ef: ef, paths: map[string]bool{}}
			w2[k] = a
		}
		a.paths[ef.target.String()] = true
	}
	for _, f := range sortedKeys(written) {
		ef := written[f]
		r.check("C14.W1", fmt.Sprintf("%s: Root.%s, written inside the transaction, is restored on error", fnName(fn), f), ef.pos, sh.restored[f],
			fmt.Sprintf("Root.%s is written by %s (via %s) during the load but not restored when the load fails: a failed load changes the root", f, fnName(ef.fn), strings.Join(ef.chain, " -> ")))
	}
	r.floor("C14.W1", "Root fields written inside the transaction of "+fnName(fn), len(written), 2)
	var ks []string
	for k := range w2 {
		ks = append(ks, k)
	}
	sort.Strings(ks)
	for _, k := range ks {
		a := w2[k]
		r.add("C14.W2", k, a.ef.pos, Violated, "an object that may have existed before the load is modified in place and nothing restores it: if the load fails afterwards the change stays",
			"locations: "+strings.Join(firstN(sortedKeys2(a.paths), 3), " ; "), "via: "+strings.Join(a.ef.chain, " -> "))
	}
	r.check("C14.W2", fmt.Sprintf("%s: all other writes to pre-existing schema objects are reference replacements or idempotent normalisations", fnName(fn)), fn.Pos(), true,
		fmt.Sprintf("%d writes into possibly pre-existing schema objects examined, %d constructs not exempt", nW2, len(w2)))
	r.floor("C14.W2", "writes into possibly pre-existing schema objects in "+fnName(fn), nW2, 6)
	// W3 part 1: tables replaced by dup of saved before first transaction call
	for _, f := range []string{"types", "dirs"} {
		ok := false
		var pos token.Pos
		for _, b := range fn.Blocks {
			for _, in := range b.Instrs {
				st, isSt := in.(*ssa.Store)
				if !isSt {
					continue
				}
				fa, isFa := st.Addr.(*ssa.FieldAddr)
				if !isFa || fa.X != ssa.Value(recv) {
					continue
				}
				if o, ff := fieldOwner(fa.X.Type(), fa.Field); o != "Root" || ff != f {
					continue
				}
				call, isCall := resolveLocal(st.Val).(*ssa.Call)
				if isCall && call.Call.StaticCallee() != nil && call.Call.StaticCallee().Name() == "dup" && len(call.Call.Args) == 1 && resolveLocal(call.Call.Args[0]) == sh.saved[f] {
					// before every transaction call
					before := true
					for _, ci := range calls {
						if ci != ssa.CallInstruction(call) && !instrDominates(st, ci.(ssa.Instruction)) {
							before = false
						}
					}
					ok = before
					pos = st.Pos()
				}
			}
		}
		r.check("C14.W3", fmt.Sprintf("%s: Root.%s is replaced by a duplicate of the saved table before the transaction starts", fnName(fn), f), firstPos(pos, fn.Pos()), ok, "the transaction would write into the original table")
	}
}

func c14Dup(c *Ctx, r *Report) {
	dup := c.fn("(*typeList).dup")
	if dup == nil {
		r.undecided("C14.W3", "anchor (*typeList).dup", token.NoPos, "not found")
		return
	}
	r.fnSeen(fnName(dup))
	recv := dup.Params[0]
	freshList, freshDict := false, false
	shares := ""
	for _, b := range dup.Blocks {
		for _, in := range b.Instrs {
			st, ok := in.(*ssa.Store)
			if !ok {
				continue
			}
			fa, ok := st.Addr.(*ssa.FieldAddr)
			if !ok {
				continue
			}
			o, f := fieldOwner(fa.X.Type(), fa.Field)
			if o != "typeList" {
				continue
			}
			if _, isAlloc := fa.X.(*ssa.Alloc); !isAlloc {
				continue
			}
			switch st.Val.(type) {
			case *ssa.MakeSlice:
				if f == "list" {
					freshList = true
				}
			case *ssa.MakeMap:
				if f == "dict" {
					freshDict = true
				}
			default:
				// storing (a reslice of) the receiver's own container shares the backing store
				ls, _ := phiLeaves(st.Val)
				for _, l := range ls {
					v := l.val
					if sl, ok := v.(*ssa.Slice); ok {
						v = sl.X
					}
					if base, _, _, ok := loadOfField(v); ok && base == ssa.Value(recv) {
						shares = f
					}
				}
			}
		}
	}
	// element-wise copy present
	copied := false
	for _, ci := range callsIn(dup) {
		if isBuiltinCall(ci, "copy") {
			copied = true
		}
	}
	mapCopied := false
	for _, b := range dup.Blocks {
		for _, in := range b.Instrs {
			if mu, ok := in.(*ssa.MapUpdate); ok {
				if _, isMM := mu.Map.(*ssa.MakeMap); isMM {
					mapCopied = true
				}
				if u, ok := mu.Map.(*ssa.UnOp); ok {
					if fa, ok := u.X.(*ssa.FieldAddr); ok {
						if _, isAlloc := fa.X.(*ssa.Alloc); isAlloc {
							mapCopied = true
						}
					}
				}
			}
		}
	}
	r.check("C14.W3", "(*typeList).dup: the copy has its own list", dup.Pos(), freshList && copied && shares != "list", "the duplicate shares the list's backing array with the original (or does not copy the elements): sorting/appending during a failed load changes the original table")
	r.check("C14.W3", "(*typeList).dup: the copy has its own map", dup.Pos(), freshDict && mapCopied && shares != "dict", "the duplicate shares the map with the original: a failed load leaves its types registered")
}

// C14.EXTORDER: the merge of an extension into its target (Type.Extend) modifies an object that the saved
// tables share with the working copy (the C14.W2 findings). What keeps "undefined reference inside an
// extension" from leaving a trace is that the extension's own references are resolved - and the load
// aborted on failure - BEFORE that extension is merged. The rule: every Extend(x.Adds) call in the
// extension pass is dominated by a reference-resolution call on the same x.Adds whose error has been
// tested (the merge is control dependent on that error being nil).
func c14ExtOrder(c *Ctx, r *Report) {
	r.rule("C14.EXTORDER", "in the extension pass each Extend(x.Adds) is dominated by replaceTypeRefs(x.Adds) of the same extension with its error tested: references are resolved before anything shared is modified")
	n := 0
	for _, fn := range c.allFns {
		if !c.inPkg(fn) {
			continue
		}
		for _, ci := range callsIn(fn) {
			cm := ci.Common()
			if !cm.IsInvoke() || cm.Method.Name() != "Extend" || len(cm.Args) != 1 {
				continue
			}
			_, o, f, ok := loadOfField(stripIface(cm.Args[0]))
			if !ok || o != "Extend" || f != "Adds" {
				continue
			}
			n++
			r.fnSeen(fnName(fn))
			resolved := false
			for _, cj := range callsIn(fn) {
				cal := cj.Common().StaticCallee()
				if cal == nil || !c.resolvesRefs(cal) {
					continue
				}
				same := false
				for _, a := range cj.Common().Args {
					if sameVal(stripIface(a), stripIface(cm.Args[0])) {
						same = true
					}
				}
				if !same || !instrDominates(cj, ci) {
					continue
				}
				// the merge happens only when that call reported no error
				if cv, ok := cj.(ssa.Value); ok {
					if hasGuard(ci.Block(), func(g guard) bool {
						v, eq, isN := nilCmp(g.cond)
						return isN && eq == g.val && sameVal(v, cv)
					}) {
						resolved = true
					}
				}
			}
			r.check("C14.EXTORDER", fmt.Sprintf("%s: the references of an extension are resolved before it is merged", fnName(fn)), ci.Pos(), resolved,
				"the extension is merged into its (shared, pre-existing) target before its references have been resolved: an undefined reference found afterwards aborts the load with the target already modified, which the restore of the tables does not undo")
		}
	}
	r.floor("C14.EXTORDER", "merges of extensions", n, 1)
}

// resolvesRefs: the function (or a function it calls directly) replaces *Ref placeholders and can fail.
func (c *Ctx) resolvesRefs(fn *ssa.Function) bool {
	if !c.inPkg(fn) || fn.Signature.Results().Len() != 1 || !isErrorType(fn.Signature.Results().At(0).Type()) {
		return false
	}
	return strings.Contains(fn.Name(), "replaceTypeRefs") || strings.Contains(fn.Name(), "ReplaceRefs")
}

// c14OneLoad: a loader that assembles a document from several sources (ParseFS: files matched by several
// patterns) is as atomic as the load transaction only if it enters the transaction once, after everything
// has been read: the call that reaches ParseReader is not inside a loop, there is exactly one, and a failure
// while reading returns before it. Loading pattern by pattern leaves the earlier patterns' definitions in the
// root when a later one fails.
func c14OneLoad(c *Ctx, r *Report) {
	r.rule("C14.ONELOAD", "(*Root).ParseFS enters the load transaction exactly once and outside any loop")
	fn := c.fn("(*Root).ParseFS")
	pr := c.fn("(*Root).ParseReader")
	if fn == nil || pr == nil {
		r.undecided("C14.ONELOAD", "anchors ParseFS / ParseReader", token.NoPos, "not found")
		return
	}
	r.fnSeen(fnName(fn))
	reachPR := func(f *ssa.Function) bool { return f == pr || c.reachable(f)[pr] }
	n, inLoopN := 0, 0
	var pos token.Pos
	for _, ci := range callsIn(fn) {
		cal := ci.Common().StaticCallee()
		if cal == nil || !c.inPkg(cal) || !reachPR(cal) {
			continue
		}
		n++
		pos = ci.Pos()
		if inLoop(ci.Block()) {
			inLoopN++
		}
	}
	r.check("C14.ONELOAD", fnName(fn)+": one load transaction for all patterns", firstPos(pos, fn.Pos()), n == 1 && inLoopN == 0,
		fmt.Sprintf("%d call(s) into the load transaction, %d inside a loop: each call is atomic on its own, but a failure in a later one returns an error with the definitions of the earlier ones left in the root", n, inLoopN))
}
