package main

// E3: recursion measures. Strongly connected components of the in-package call
// graph; every call edge inside a component is classified and a component is
// accepted when every cycle contains an edge that decreases a measure.

import (
	"fmt"
	"go/token"
	"go/types"
	"sort"
	"strings"

	"golang.org/x/tools/go/ssa"
)

type recEdge struct {
	from, to *ssa.Function
	site     ssa.CallInstruction
	class    string // DEC | DESC | VISITED | INPUT | REF | NEUT
	why      string
}

type recSCC struct {
	fns   []*ssa.Function
	edges []recEdge
}

// referenceSelectors: fields that point across the tree (may form cycles in the data).
var referenceSelectors = map[string]string{
	"FragRef.Fragment":       "a fragment spread refers to a fragment definition; definitions may refer to each other",
	"DirectiveUse.Directive": "a directive use refers to the directive definition",
	"FieldDef.Type":          "a field refers to its (possibly recursive) type",
	"InputField.Type":        "an input field refers to its (possibly recursive) type",
	"Arg.Type":               "an argument refers to its type",
	"Executable.Fragments":   "fragment table",
	"Union.Members":          "a union refers to its member types",
	"Object.Interfaces":      "an object refers to its interfaces",
	"Interface.Root":         "back pointer to the root",
	"Root.types":             "type table",
	"Root.dirs":              "directive table",
}

func sccsOf(nodes []*ssa.Function, succ func(*ssa.Function) []*ssa.Function) [][]*ssa.Function {
	index := map[*ssa.Function]int{}
	low := map[*ssa.Function]int{}
	on := map[*ssa.Function]bool{}
	var stack []*ssa.Function
	var out [][]*ssa.Function
	n := 0
	var strong func(v *ssa.Function)
	strong = func(v *ssa.Function) {
		index[v] = n
		low[v] = n
		n++
		stack = append(stack, v)
		on[v] = true
		for _, w := range succ(v) {
			if _, seen := index[w]; !seen {
				strong(w)
				if low[w] < low[v] {
					low[v] = low[w]
				}
			} else if on[w] && index[w] < low[v] {
				low[v] = index[w]
			}
		}
		if low[v] == index[v] {
			var comp []*ssa.Function
			for {
				w := stack[len(stack)-1]
				stack = stack[:len(stack)-1]
				on[w] = false
				comp = append(comp, w)
				if w == v {
					break
				}
			}
			out = append(out, comp)
		}
	}
	for _, v := range nodes {
		if _, seen := index[v]; !seen {
			strong(v)
		}
	}
	return out
}

// recursionSCCs builds the components with at least one cycle.
func recursionSCCs(c *Ctx, eng *effEngine) []*recSCC {
	var nodes []*ssa.Function
	for _, f := range c.allFns {
		nodes = append(nodes, f)
	}
	callees := map[*ssa.Function]map[*ssa.Function][]ssa.CallInstruction{}
	for _, f := range nodes {
		m := map[*ssa.Function][]ssa.CallInstruction{}
		for _, ci := range callsIn(f) {
			for _, cal := range eng.feasibleCallees(ci) {
				if c.inPkg(cal) {
					m[cal] = append(m[cal], ci)
				}
			}
			// closures created here and passed to externals or called later
		}
		for _, an := range f.AnonFuncs {
			if _, ok := m[an]; !ok {
				m[an] = nil
			}
		}
		callees[f] = m
	}
	succ := func(f *ssa.Function) []*ssa.Function {
		var out []*ssa.Function
		for g := range callees[f] {
			out = append(out, g)
		}
		sort.Slice(out, func(i, j int) bool { return fnName(out[i]) < fnName(out[j]) })
		return out
	}
	var res []*recSCC
	for _, comp := range sccsOf(nodes, succ) {
		in := map[*ssa.Function]bool{}
		for _, f := range comp {
			in[f] = true
		}
		cyc := len(comp) > 1
		if !cyc {
			if _, self := callees[comp[0]][comp[0]]; self {
				cyc = true
			}
		}
		if !cyc {
			continue
		}
		sort.Slice(comp, func(i, j int) bool { return fnName(comp[i]) < fnName(comp[j]) })
		sc := &recSCC{fns: comp}
		for _, f := range comp {
			for g, sites := range callees[f] {
				if !in[g] {
					continue
				}
				for _, site := range sites {
					e := recEdge{from: f, to: g, site: site}
					e.class, e.why = classifyRecEdge(c, eng, f, g, site)
					sc.edges = append(sc.edges, e)
				}
			}
		}
		sort.Slice(sc.edges, func(i, j int) bool {
			a, b := sc.edges[i], sc.edges[j]
			if fnName(a.from) != fnName(b.from) {
				return fnName(a.from) < fnName(b.from)
			}
			return a.site.Pos() < b.site.Pos()
		})
		res = append(res, sc)
	}
	sort.Slice(res, func(i, j int) bool { return fnName(res[i].fns[0]) < fnName(res[j].fns[0]) })
	return res
}

func isScannerFn(c *Ctx, f *ssa.Function) bool {
	if f.Name() == "parseSDL" || f.Name() == "parseExe" {
		return true
	}
	if r := f.Signature.Recv(); r != nil {
		for _, n := range []string{"parser", "sdlParser", "exeParser"} {
			if c.isNamed(r.Type(), n) {
				return true
			}
		}
	}
	return false
}

// visitedGuarded: the call is made only for keys not yet in a visited set (a map parameter handed on to
// the callee) and the key is inserted before the call.
func visitedGuarded(f, g *ssa.Function, site ssa.CallInstruction) bool {
	cc := site.Common()
	var actuals []ssa.Value
	if cc.IsInvoke() {
		actuals = append(actuals, cc.Value)
	}
	actuals = append(actuals, cc.Args...)
	// VISITED: call guarded by a visited set that is extended before the call
	for i, a := range actuals {
		if i >= len(g.Params) {
			break
		}
		mp, ok := a.(*ssa.Parameter)
		if !ok {
			continue
		}
		if _, isMap := mp.Type().Underlying().(*types.Map); !isMap {
			continue
		}
		marked, tested := false, false
		for _, b := range f.Blocks {
			for _, in := range b.Instrs {
				if mu, ok := in.(*ssa.MapUpdate); ok && mu.Map == ssa.Value(mp) && b.Dominates(site.Block()) {
					marked = true
					// the same key was tested before
					for _, gd := range blockGuards(b) {
						gd = normGuard(gd)
						if lk, ok := gd.cond.(*ssa.Lookup); ok && lk.X == ssa.Value(mp) && sameVal(lk.Index, mu.Key) && !gd.val {
							tested = true
						}
					}
				}
			}
		}
		// the mark must still be in place at the call: no delete on the set between the mark and the call
		for _, b := range f.Blocks {
			for _, in := range b.Instrs {
				ci, ok := in.(ssa.CallInstruction)
				if !ok || !isBuiltinCall(ci, "delete") || len(ci.Common().Args) == 0 || ci.Common().Args[0] != ssa.Value(mp) {
					continue
				}
				if b == site.Block() {
					for _, in2 := range b.Instrs {
						if in2 == in {
							marked = false // delete precedes the call in its block
						}
						if in2 == ssa.Instruction(site) {
							break
						}
					}
				} else if b.Dominates(site.Block()) {
					marked = false
				}
			}
		}
		if marked && tested {
			return true
		}
	}
	return false
}

// followsReference: some pointer-like argument of the call is reached from a caller parameter through a
// reference selector (fragment spread -> definition, field -> type ...). Returns the selector.
func followsReference(c *Ctx, eng *effEngine, f, g *ssa.Function, site ssa.CallInstruction) string {
	cc := site.Common()
	var actuals []ssa.Value
	if cc.IsInvoke() {
		actuals = append(actuals, cc.Value)
	}
	actuals = append(actuals, cc.Args...)
	for i, a := range actuals {
		if i >= len(g.Params) {
			break
		}
		switch g.Params[i].Type().Underlying().(type) {
		case *types.Pointer, *types.Interface, *types.Slice, *types.Map:
		default:
			continue
		}
		for _, p := range recProv(c, eng, f, a) {
			for _, sel := range p.selList() {
				if _, isRef := referenceSelectors[sel]; isRef {
					return sel
				}
			}
		}
	}
	return ""
}

func classifyRecEdge(c *Ctx, eng *effEngine, f, g *ssa.Function, site ssa.CallInstruction) (string, string) {
	cc := site.Common()
	// actual arguments in callee-parameter order
	var actuals []ssa.Value
	if cc.IsInvoke() {
		actuals = append(actuals, cc.Value)
	}
	actuals = append(actuals, cc.Args...)
	// scanner recursion: consumes input before descending; bounded when a nesting guard dominates the call
	if isScannerFn(c, f) && isScannerFn(c, g) {
		if why, ok := nestGuarded(c, f, site); ok {
			return "BOUNDED", why
		}
		return "INPUT", "scanner recursion: each level first consumes the construct's opening token"
	}
	// DEC: an integer parameter of the callee receives p - c
	for i, a := range actuals {
		if i >= len(g.Params) {
			break
		}
		bt, ok := g.Params[i].Type().Underlying().(*types.Basic)
		if !ok || bt.Info()&types.IsInteger == 0 {
			continue
		}
		if bo, ok := a.(*ssa.BinOp); ok && bo.Op == token.SUB {
			if _, isP := bo.X.(*ssa.Parameter); isP {
				if k, isC := bo.Y.(*ssa.Const); isC && k.Int64() >= 1 {
					return "DEC", fmt.Sprintf("parameter %s receives %s - %d", g.Params[i].Name(), bo.X.Name(), k.Int64())
				}
			}
		}
	}
	// VISITED: call guarded by a visited set that is extended before the call
	if visitedGuarded(f, g, site) {
		return "VISITED", "the call is made only for keys not yet in the visited set, which is extended before the call"
	}
	// DESC / REF by provenance of pointer-like arguments
	best := "NEUT"
	why := "the same values are passed on"
	for i, a := range actuals {
		if i >= len(g.Params) {
			break
		}
		switch g.Params[i].Type().Underlying().(type) {
		case *types.Pointer, *types.Interface, *types.Slice, *types.Map:
		default:
			continue
		}
		ps := recProv(c, eng, f, a)
		if len(ps) == 0 {
			continue
		}
		allDesc := true
		ref := ""
		for _, p := range ps {
			if p.kind != rParam || len(p.selList()) == 0 {
				allDesc = false
				continue
			}
			for _, s := range p.selList() {
				if _, isRef := referenceSelectors[s]; isRef {
					ref = s
				}
			}
		}
		if ref != "" {
			if best != "DESC" {
				best = "REF"
				why = fmt.Sprintf("argument %d follows the reference %s", i, ref)
			}
			continue
		}
		if allDesc {
			var ex []string
			for _, p := range ps {
				ex = append(ex, p.String())
			}
			sort.Strings(ex)
			return "DESC", fmt.Sprintf("parameter %s receives a proper part of the caller's argument (%s)", g.Params[i].Name(), strings.Join(firstN(ex, 2), ", "))
		}
	}
	return best, why
}

// recProv: provenance of an actual argument, with two tree-descending idioms understood:
// members of an error group obtained through errors.As, and parts of a reflect.Value.
func recProv(c *Ctx, eng *effEngine, f *ssa.Function, a ssa.Value) []apath {
	// reflect descent: x.Index(i) / x.Elem() / x.Field(i) [.Interface()] of a value rooted at a parameter
	v := a
	if mi, ok := v.(*ssa.MakeInterface); ok {
		v = mi.X
	}
	for depth := 0; depth < 4; depth++ {
		call, ok := v.(*ssa.Call)
		if !ok {
			break
		}
		fo := calleeObj(call)
		if fo == nil || fo.Pkg() == nil || fo.Pkg().Path() != "reflect" {
			break
		}
		recv := callRecv(call)
		if recv == nil {
			break
		}
		switch fo.Name() {
		case "Interface":
			v = recv
			continue
		case "Index", "Elem", "Field", "MapIndex":
			base := recv
			for {
				if c2, ok := base.(*ssa.Call); ok {
					if f2 := calleeObj(c2); f2 != nil && f2.Pkg() != nil && f2.Pkg().Path() == "reflect" {
						if r2 := callRecv(c2); r2 != nil {
							base = r2
							continue
						}
						if f2.Name() == "ValueOf" && len(c2.Call.Args) == 1 {
							base = stripIface(c2.Call.Args[0])
							continue
						}
					}
				}
				break
			}
			if p, ok := base.(*ssa.Parameter); ok {
				return []apath{{kind: rParam, idx: paramIndex(f, p), sels: "/reflect." + fo.Name()}}
			}
		}
		break
	}
	// member of an error group unwrapped by errors.As(x, &group)
	var alloc *ssa.Alloc
	switch t := a.(type) {
	case *ssa.UnOp:
		if ia, ok := t.X.(*ssa.IndexAddr); ok {
			if u, ok := ia.X.(*ssa.UnOp); ok {
				alloc, _ = u.X.(*ssa.Alloc)
			}
		}
	case *ssa.Extract:
		if nx, ok := t.Tuple.(*ssa.Next); ok {
			if rg, ok := nx.Iter.(*ssa.Range); ok {
				if u, ok := rg.X.(*ssa.UnOp); ok {
					alloc, _ = u.X.(*ssa.Alloc)
				}
			}
		}
	}
	if alloc != nil {
		for _, ref := range *alloc.Referrers() {
			if mi, ok := ref.(*ssa.MakeInterface); ok {
				for _, r2 := range *mi.Referrers() {
					if call, ok := r2.(*ssa.Call); ok && isFuncCall(call, "errors", "As") {
						var out []apath
						for _, p := range eng.prov(f, call.Call.Args[0]) {
							out = append(out, p.add("errors.As").add("[]"))
						}
						return out
					}
				}
			}
		}
	}
	var out []apath
	for _, p := range eng.prov(f, a) {
		out = append(out, p)
	}
	return out
}

// accepted: after removing measure-decreasing edges the component has no cycle left.
func (s *recSCC) residualCycle() []recEdge {
	adj := map[*ssa.Function][]recEdge{}
	for _, e := range s.edges {
		switch e.class {
		case "DEC", "DESC", "VISITED", "INPUT", "BOUNDED":
			continue
		}
		adj[e.from] = append(adj[e.from], e)
	}
	// find a cycle in the residual graph
	color := map[*ssa.Function]int{}
	var path []recEdge
	var found []recEdge
	var dfs func(f *ssa.Function) bool
	dfs = func(f *ssa.Function) bool {
		color[f] = 1
		for _, e := range adj[f] {
			if color[e.to] == 1 {
				// cycle: slice of path from e.to
				start := 0
				for i, pe := range path {
					if pe.from == e.to {
						start = i
						break
					}
				}
				found = append(append([]recEdge{}, path[start:]...), e)
				if e.to == f && len(path) == 0 {
					found = []recEdge{e}
				}
				return true
			}
			if color[e.to] == 0 {
				path = append(path, e)
				if dfs(e.to) {
					return true
				}
				path = path[:len(path)-1]
			}
		}
		color[f] = 2
		return false
	}
	for _, f := range s.fns {
		if color[f] == 0 {
			path = nil
			if dfs(f) {
				return found
			}
		}
	}
	// a structural descent is a measure only while the walk stays inside one tree: a cycle that also follows a
	// reference (fragment spread -> fragment definition) restarts on another tree, so descent does not bound it.
	adj2 := map[*ssa.Function][]recEdge{}
	for _, e := range s.edges {
		switch e.class {
		case "DEC", "VISITED", "INPUT", "BOUNDED":
			continue
		}
		adj2[e.from] = append(adj2[e.from], e)
	}
	for _, re := range s.edges {
		if re.class != "REF" {
			continue
		}
		// path from re.to back to re.from
		prev := map[*ssa.Function]*recEdge{}
		seen := map[*ssa.Function]bool{re.to: true}
		queue := []*ssa.Function{re.to}
		for len(queue) > 0 && !seen[re.from] {
			f := queue[0]
			queue = queue[1:]
			for i := range adj2[f] {
				e := adj2[f][i]
				if !seen[e.to] {
					seen[e.to] = true
					prev[e.to] = &adj2[f][i]
					queue = append(queue, e.to)
				}
			}
		}
		if re.to == re.from {
			return []recEdge{re}
		}
		if seen[re.from] {
			var back []recEdge
			for f := re.from; f != re.to; {
				e := prev[f]
				back = append([]recEdge{*e}, back...)
				f = e.from
			}
			return append([]recEdge{re}, back...)
		}
	}
	return nil
}

func (s *recSCC) name() string {
	var ns []string
	for _, f := range s.fns {
		ns = append(ns, fnName(f))
	}
	if len(ns) > 4 {
		ns = append(ns[:4], fmt.Sprintf("+%d", len(s.fns)-4))
	}
	return strings.Join(ns, ", ")
}

// nestGuarded: the call is dominated by a call to a nesting guard whose error was tested: a scanner
// method that increments an integer field of the parser and fails when it exceeds a constant.
func nestGuarded(c *Ctx, f *ssa.Function, site ssa.CallInstruction) (string, bool) {
	for _, ci := range callsIn(f) {
		g := ci.Common().StaticCallee()
		if g == nil || !isNestGuard(c, g) {
			continue
		}
		call, ok := ci.(*ssa.Call)
		if !ok || !(call.Block() == site.Block() || call.Block().Dominates(site.Block())) {
			continue
		}
		// its error must be nil on the way to the recursive call
		if hasGuard(site.Block(), func(gd guard) bool {
			if guardSaysNil(gd, call) {
				return true
			}
			// the error was spilled into a local cell (functions with defer): tested through a reload in the same block
			v, eq, ok := nilCmp(gd.cond)
			if !ok || eq != gd.val {
				return false
			}
			u, ok := v.(*ssa.UnOp)
			if !ok || u.Op != token.MUL {
				return false
			}
			al, ok := u.X.(*ssa.Alloc)
			if !ok {
				return false
			}
			for _, in := range gd.at.Block().Instrs {
				if st, ok := in.(*ssa.Store); ok && st.Addr == ssa.Value(al) && st.Val == ssa.Value(call) {
					return true
				}
			}
			return false
		}) {
			return fmt.Sprintf("dominated by %s() == nil, which bounds the nesting depth by a constant", fnName(g)), true
		}
	}
	return "", false
}

func isNestGuard(c *Ctx, g *ssa.Function) bool {
	if !isScannerFn(c, g) || g.Signature.Results().Len() != 1 || !isErrorType(g.Signature.Results().At(0).Type()) {
		return false
	}
	inc, cmp := false, false
	for _, b := range g.Blocks {
		for _, in := range b.Instrs {
			switch t := in.(type) {
			case *ssa.Store:
				if fa, ok := t.Addr.(*ssa.FieldAddr); ok {
					if o, _ := fieldOwner(fa.X.Type(), fa.Field); o == "parser" {
						if bo, ok := t.Val.(*ssa.BinOp); ok && bo.Op == token.ADD {
							if k, ok := bo.Y.(*ssa.Const); ok && k.Int64() == 1 {
								inc = true
							}
						}
					}
				}
			case *ssa.If:
				if v, op, _, ok := intCmp(t.Cond); ok {
					if _, o, _, isF := loadOfField(v); isF && o == "parser" && (op == token.GTR || op == token.GEQ || op == token.LSS || op == token.LEQ) {
						// one branch returns a non-nil error
						for _, sc := range b.Succs {
							for _, in2 := range sc.Instrs {
								if rt, ok := in2.(*ssa.Return); ok && len(rt.Results) == 1 && !isNilConst(rt.Results[0]) {
									cmp = true
								}
							}
						}
					}
				}
			}
		}
	}
	return inc && cmp
}

// setShrinks: the function deletes entries from a map parameter that it passes on at the call site: the set
// is the path currently being walked, not the set of everything already walked.
func setShrinks(f *ssa.Function, site ssa.CallInstruction) bool {
	cc := site.Common()
	for _, a := range cc.Args {
		mp, ok := a.(*ssa.Parameter)
		if !ok {
			continue
		}
		if _, isMap := mp.Type().Underlying().(*types.Map); !isMap {
			continue
		}
		for _, b := range f.Blocks {
			for _, in := range b.Instrs {
				ci, ok := in.(ssa.CallInstruction)
				if ok && isBuiltinCall(ci, "delete") && len(ci.Common().Args) > 0 && ci.Common().Args[0] == ssa.Value(mp) {
					return true
				}
			}
		}
	}
	return false
}
