package main

import (
	"fmt"
	"go/types"
	"os"
	"strings"

	"golang.org/x/tools/go/ssa"
)

// C18.NEST (also stated under C03): the nesting counter of the value / document reader is a typestate:
// every successful nest() is matched by exactly one unnest() on every path to a successful return of the
// function that called it (a `defer p.unnest()` executed after the nest covers all exits). A level that is
// entered and not left on some successful path makes the counter grow with the NUMBER of containers read
// instead of their depth, so a flat value with many objects is refused as "nested too deep" although the
// writer produced it: the text no longer parses back.
func nestPairRule(c *Ctx, r *Report, rule string) {
	nest, unnest := c.fn("(*parser).nest"), c.fn("(*parser).unnest")
	if nest == nil || unnest == nil {
		r.undecided(rule, "anchors (*parser).nest / unnest", 0, "not found")
		return
	}
	isEvent := func(in ssa.Instruction) bool {
		switch t := in.(type) {
		case *ssa.Defer:
			return t.Call.StaticCallee() == unnest
		case *ssa.Call:
			return t.Call.StaticCallee() == unnest
		}
		return false
	}
	n := 0
	for _, fn := range c.allFns {
		if !c.inPkg(fn) {
			continue
		}
		k := 0
		for _, ci := range callsIn(fn) {
			if ci.Common().StaticCallee() != nest {
				continue
			}
			n++
			k++
			r.fnSeen(fnName(fn))
			// search: paths from the nest call that reach a successful return without an unnest event
			var witness *ssa.Return
			seen := map[*ssa.BasicBlock]bool{}
			var walk func(b *ssa.BasicBlock, from int)
			walk = func(b *ssa.BasicBlock, from int) {
				if witness != nil {
					return
				}
				for i := from; i < len(b.Instrs); i++ {
					in := b.Instrs[i]
					if isEvent(in) {
						return
					}
					if rt, ok := in.(*ssa.Return); ok {
						if successReturn(rt) {
							witness = rt
							if os.Getenv("NEST_DEBUG") != "" {
								fmt.Printf("DEBUG witness in %s block %d last=%s %T\n", fnName(fn), rt.Block().Index, rt.Results[len(rt.Results)-1], rt.Results[len(rt.Results)-1])
							}
						}
						return
					}
				}
				for _, s := range b.Succs {
					if !seen[s] {
						seen[s] = true
						walk(s, 0)
					}
				}
			}
			b := ci.Block()
			idx := 0
			for i, in := range b.Instrs {
				if in == ci.(ssa.Instruction) {
					idx = i + 1
				}
			}
			// only the continuation on which nest reported no error
			walkSuccess := func() {
				// the If testing nest's error is the terminator of b (or of a successor): follow the edge on which it is nil
				walk(b, idx)
			}
			walkSuccess()
			d := ""
			pos := ci.Pos()
			if witness != nil {
				d = "a successful return at " + c.pos(witness.Pos()) + " is reached without unnest(): the level stays entered, the counter counts containers instead of depth and a flat value with many of them is refused as nested too deep"
				pos = witness.Pos()
			}
			r.check(rule, fmt.Sprintf("%s: nest #%d is left again on every successful path", fnName(fn), k), pos, witness == nil, d)
		}
	}
	r.floor(rule, "nest() call sites", n, 3)
}

// successReturn: the error result (last result of type error) is nil on this return.
func successReturn(rt *ssa.Return) bool {
	if len(rt.Results) == 0 {
		return true
	}
	last := rt.Results[len(rt.Results)-1]
	if !isErrorType(last.Type()) {
		return true
	}
	if isNilConst(last) {
		return true
	}
	last = resolveCell(last)
	if isNilConst(last) {
		return true
	}
	leaves, _ := phiLeaves(last)
	all := len(leaves) > 0
	for _, lf := range leaves {
		if isNilConst(lf.val) {
			continue
		}
		b := rt.Block()
		if lf.pred != nil {
			b = lf.pred
		}
		lv := resolveCell(lf.val)
		if !hasGuard(b, func(g guard) bool {
			x, eq, ok := nilCmp(g.cond)
			return ok && eq == g.val && resolveCell(x) == lv
		}) {
			all = false
		}
	}
	return all
}

// c18Literals: the writer prints an enum symbol as its bare name and the words true / false for booleans.
// The reader therefore may turn a bare token into a boolean only when it IS the writer's word: each
// boolean constant boxed as the value of a token in readValue sits under an equality comparison of the
// token with the constant "true" / "false" - not under a case-insensitive or otherwise widened test, which
// would turn the symbols TRUE, False, ... into booleans.
func c18Literals(c *Ctx, r *Report) {
	r.rule("C18.LITERALS", "readValue boxes the constants true / false only under an equality test of the token with \"true\" / \"false\"")
	fn := c.fn("(*parser).readValue")
	if fn == nil {
		r.undecided("C18.LITERALS", "anchor (*parser).readValue", 0, "not found")
		return
	}
	n := 0
	for _, b := range fn.Blocks {
		for _, in := range b.Instrs {
			// the boxed constant is a phi edge or a store operand: look for constants of type bool converted to interface
			var consts []*ssa.Const
			switch t := in.(type) {
			case *ssa.MakeInterface:
				if k, ok := t.X.(*ssa.Const); ok {
					consts = append(consts, k)
				}
			}
			for _, k := range consts {
				bt, ok := k.Type().Underlying().(*types.Basic)
				if !ok || bt.Info()&types.IsBoolean == 0 || k.Value == nil {
					continue
				}
				want := k.Value.String()
				n++
				ok2 := hasGuard(b, func(g guard) bool {
					_, lit, eq, isCmp := strConstCmp(g.cond)
					return isCmp && lit == want && eq == g.val
				})
				r.check("C18.LITERALS", fmt.Sprintf("%s: the token read as %s is exactly %q", fnName(fn), want, want), in.Pos(), ok2,
					"the boolean is produced under a test other than equality with the writer's word: a widened test (any letter case) turns enum symbols the writer prints bare, such as "+strings.ToUpper(want)+", into booleans on the way back")
			}
		}
	}
	r.floor("C18.LITERALS", "boolean constants produced by the value reader", n, 2)
}
